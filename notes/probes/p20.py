import warnings; warnings.filterwarnings('ignore')
import sys, bisect
from datetime import datetime, timedelta
import numpy as np
from hypothesis import given, settings, strategies as st, seed, HealthCheck
from tradingenv.env import TradingEnv
from tradingenv.transmitter import Transmitter
from tradingenv.events import IEvent, EventNBBO
from tradingenv.contracts import ETF, AbstractContract
from tradingenv.spaces import BoxPortfolio
from tradingenv.state import IState
import tradingenv; print(tradingenv.__file__)
class Ping(IEvent):
    def __init__(self,time,uid): self.time=time; self.uid=uid
class Rec(IState):
    def __init__(self): super().__init__(); self.log=[]
    def _r(self,e,k): self.log.append((k,getattr(e,'uid',None),e.time,len(self.broker.track_record) if self.broker is not None else None))
    def process_Ping(self,event): self._r(event,'P')
    def process_EventNBBO(self,event): self._r(event,'Q')
    def process_EventReset(self,event): self._r(event,'RESET')
    def process_EventStep(self,event): self._r(event,'STEP')
    def process_EventDone(self,event): self._r(event,'DONE')
    def process_EventNewDate(self,event): self._r(event,'NEWDATE')
T0=datetime(2020,1,1,12,0,0)
@st.composite
def case(draw):
    n=draw(st.integers(2,6)); gaps=draw(st.lists(st.sampled_from([20,60,3600,40000,86400,200000]),min_size=n,max_size=n))
    grid=[]; t=0
    for g in gaps: t+=g; grid.append(t)
    mingap=min(gaps[1:])
    lat=draw(st.sampled_from([0,1,5,mingap-1])); lat=min(lat,mingap-1)
    evs=[]  # (sec, kind) kind 'P' ping or 'Q' quote
    for _ in range(draw(st.integers(0,10))):
        gi=draw(st.integers(0,n-1)); off=draw(st.sampled_from([-3,-1,0,1,lat-1,lat,lat+1,lat+2,10**6]))
        evs.append((grid[gi]+off, draw(st.sampled_from(['P','Q']))))
    # bars: each event-bearing slot gets an event exactly at its grid point
    slots=set()
    for s,k in evs:
        if s<=grid[-1]: slots.add(grid[bisect.bisect_left(grid,s)])
    for g in grid:
        if g in slots or draw(st.booleans()): evs.append((g,'Q'))
    fs=draw(st.integers(0,n-1))
    return dict(grid=grid,lat=lat,evs=evs,foldstart=grid[fs],markov=draw(st.booleans()),warm=draw(st.sampled_from([None,None,100,100000])),shuffle=draw(st.randoms(use_true_random=False)).random())
def run(c):
    AbstractContract.now=datetime.min
    dt=lambda s:T0+timedelta(seconds=s)
    grid=c['grid']; x=ETF('X')
    evs=list(c['evs'])
    if c['markov']: evs=[e for e in evs if e[0]>=grid[0]]
    steps_all=sorted({grid[bisect.bisect_left(grid,s)] for s,k in evs if s<=grid[-1]})
    steps=[s for s in steps_all if s>=c['foldstart']]
    if not steps: return 'empty'
    objs=[Ping(dt(s),i) if k=='P' else EventNBBO(dt(s),x,float(i+1),float(i+1)) for i,(s,k) in enumerate(evs)]
    for i,o in enumerate(objs): o.uid=i
    tr=Transmitter([dt(g) for g in grid], folds={'f':[dt(c['foldstart']),dt(grid[-1])]}, markov_reset=c['markov'], warmup=timedelta(seconds=c['warm']) if c['warm'] else None)
    tr.add_events(objs)
    rec=Rec()
    env=TradingEnv(BoxPortfolio([x]), state=rec, transmitter=tr, latency=c['lat'])
    order=sorted(range(len(evs)), key=lambda i:(evs[i][0],i))
    slot={i:grid[bisect.bisect_left(grid,evs[i][0])] for i in range(len(evs)) if evs[i][0]<=grid[-1]}
    def latent(i):
        k=bisect.bisect_left(grid,evs[i][0]); return k>0 and evs[i][0]-grid[k-1]<=c['lat']
    for episode in range(2):
        rec_log_start=len(rec.log) if False else None
        env.reset('f'); log=list(env.state.log); 
        # expected reset deliveries
        s0=steps[0]; origin = -10**18 if not c['warm'] else s0-c['warm']
        if c['markov']: exp0=[i for i in order if slot.get(i)==s0]
        else: exp0=[i for i in order if i in slot and origin<=slot[i]<=s0]
        got=[u for (k,u,t,n) in log if k in 'PQ']
        assert got==exp0, ('reset delivery',got,exp0)
        assert env.now()==dt(max(evs[i][0] for i in exp0))
        last_book=[i for i in exp0 if evs[i][1]=='Q']
        if last_book: assert env.exchange[x].bid_price==float(last_book[-1]+1), ('book after reset',env.exchange[x].bid_price,last_book[-1]+1)
        for j,s in enumerate(steps[1:],start=1):
            n0=len(env.state.log)
            o,r,d,info=env.step(np.array([0.0]))
            new=env.state.log[n0:]
            expa=[i for i in order if slot.get(i)==s and latent(i)]; expb=[i for i in order if slot.get(i)==s and not latent(i)]
            gota=[u for (k,u,t,n) in new if k in 'PQ' and n==j-1]; gotb=[u for (k,u,t,n) in new if k in 'PQ' and n==j]
            assert gota==expa and gotb==expb, ('step delivery',j,gota,expa,gotb,expb)
            assert d==(j==len(steps)-1)
            mx=dt(max(evs[i][0] for i in expa+expb)); assert env.now()==mx, ('now',env.now(),mx)
            st_=[t for (k,u,t,n) in new if k=='STEP']; assert st_==[mx], ('step stamp',st_,mx)
        full=env.state.log
        times=[t for (k,u,t,n) in full]
        assert all(a<=b for a,b in zip(times,times[1:])), ('non-monotone',[(k,str(t)) for k,u,t,n in full])
        # every NEWDATE stamped with time of previous entry
        for a,b in zip(full,full[1:]):
            if b[0]=='NEWDATE': assert b[2]==a[2], ('newdate stamp',a,b)
    return 'ok'
stats={}
@seed(int(sys.argv[1]))
@settings(max_examples=int(sys.argv[2]), deadline=None, database=None, suppress_health_check=list(HealthCheck))
@given(case())
def test(c):
    r=run(c); stats[r]=stats.get(r,0)+1
try: test()
finally: print(stats)
