import warnings; warnings.filterwarnings('ignore')
from datetime import datetime, timedelta
import numpy as np
from tradingenv.broker.broker import Broker
from tradingenv.broker.trade import Trade
from tradingenv.broker.fees import BrokerFees
from tradingenv.exchange import Exchange
from tradingenv.events import EventNBBO
from tradingenv.contracts import AbstractContract, ETF, ES, Cash, Rate

class Fut(AbstractContract):
    def __init__(s, sym, mult, mr): s._s=sym; s._m=mult; s._mr=mr
    symbol=property(lambda s:s._s); multiplier=property(lambda s:s._m)
    margin_requirement=property(lambda s:s._mr); cash_requirement=0.0
class Spot(AbstractContract):
    def __init__(s, sym, mult): s._s=sym; s._m=mult
    symbol=property(lambda s:s._s); multiplier=property(lambda s:s._m)
    margin_requirement=0.0; cash_requirement=1.0

t0=datetime(2020,1,1)
def mk():
    ex=Exchange(); ex.process_EventNBBO(EventNBBO(t0,Cash(),1.,1.)); ex.process_EventNBBO(EventNBBO(t0,Rate('FED funds rate'),0.,0.))
    return ex, Broker(ex, deposit=1000.)
# (a) add to margined long under spread
ex,b=mk(); f=Fut('F',10.,0.1)
ex.process_EventNBBO(EventNBBO(t0,f,99.,101.))
b.transact(Trade(t0,f,1.,99.,101.)); print('after buy1 nlv',b.net_liquidation_value(), 'expected', 1000-10*1*2)
b.transact(Trade(t0,f,1.,99.,101.)); print('after buy2 nlv',b.net_liquidation_value(), 'expected', 1000-10*2*2)
# (b) spot mult != 1
ex,b=mk(); s=Spot('S',10.)
ex.process_EventNBBO(EventNBBO(t0,s,100.,100.))
b.transact(Trade(t0,s,1.,100.,100.)); print('spot mult 10 nlv',b.net_liquidation_value(),'expected 1000', b.holdings_quantity)
# add to short
ex,b=mk()
ex.process_EventNBBO(EventNBBO(t0,f,99.,101.))
b.transact(Trade(t0,f,-1.,99.,101.)); print('after sell1 nlv',b.net_liquidation_value(), 'expected', 1000-20)
b.transact(Trade(t0,f,-1.,99.,101.)); print('after sell2 nlv',b.net_liquidation_value(), 'expected', 1000-40)
