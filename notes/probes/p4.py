import warnings; warnings.filterwarnings('ignore')
from datetime import datetime, timedelta
import numpy as np, pandas as pd, traceback
from tradingenv.env import TradingEnv
from tradingenv.transmitter import Transmitter
from tradingenv.events import EventNBBO
from tradingenv.contracts import ETF, ES, Cash, Rate, FutureChain, AbstractContract
from tradingenv.spaces import BoxPortfolio

def build(year):
    AbstractContract.now=datetime.min
    chain=FutureChain(ES, f'{year}-01', f'{year+1}-03')
    days=list(pd.bdate_range(f'{year}-02-20', f'{year}-04-05').to_pydatetime())
    tr=Transmitter(days)
    evs=[]
    for i,d in enumerate(days):
        for j,c in enumerate(chain.contracts):
            if d < c.expiry:
                p=3000.+i+10*j
                evs.append(EventNBBO(d,c,p-0.25,p+0.25))
    tr.add_events(evs)
    return TradingEnv(BoxPortfolio([chain],-2,2), transmitter=tr), chain

def run_alone(year, n):
    env,chain=build(year); env.reset(); out=[]
    for k in range(n):
        o,r,d,info=env.step(np.array([0.5])); out.append((round(r,12), dict(env.broker.holdings_quantity)))
    return out
a=run_alone(2018,25); b=run_alone(2019,25)
# interleave
e1,c1=build(2018); e2,c2=build(2019); e1.reset(); e2.reset(); o1=[];o2=[]
try:
    for k in range(25):
        o,r,d,info=e1.step(np.array([0.5])); o1.append((round(r,12), dict(e1.broker.holdings_quantity)))
        o,r,d,info=e2.step(np.array([0.5])); o2.append((round(r,12), dict(e2.broker.holdings_quantity)))
    print('interleaved equal alone?', o1==a, o2==b)
    for k,(x,y) in enumerate(zip(o1,a)):
        if x!=y: print('first diff env1 step',k,x,y); break
except Exception as e:
    print('interleaved raised at step',k,type(e).__name__,e)
print('alone holdings around roll:', [ {str(kk):round(v,4) for kk,v in h.items() if v} for r,h in a[8:14]])
