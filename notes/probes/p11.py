import warnings; warnings.filterwarnings('ignore')
import sys, math
from datetime import datetime, timedelta
import numpy as np
from hypothesis import given, settings, strategies as st, seed, HealthCheck
from tradingenv.broker.broker import Broker
from tradingenv.broker.rebalancing import Rebalancing
from tradingenv.broker.fees import BrokerFees
from tradingenv.exchange import Exchange
from tradingenv.events import EventNBBO
from tradingenv.contracts import AbstractContract, ETF, Cash, Rate
import tradingenv; print(tradingenv.__file__)
class C(AbstractContract):
    def __init__(s, sym, mult, mr): s._s=sym; s._m=mult; s._mr=mr
    symbol=property(lambda s:s._s); multiplier=property(lambda s:s._m); margin_requirement=property(lambda s:s._mr)
    cash_requirement=property(lambda s: 0.0 if s._mr>0 else 1.0)
t0=datetime(2020,1,1)
dy=st.sampled_from([0.0,0.25,-0.25,0.5,-0.5,1.0,1.5,-1.0,0.125,0.0625])
@st.composite
def case(draw):
    nc=draw(st.integers(1,3))
    specs=[(draw(st.sampled_from([1.0,2.0,0.5,8.0])), draw(st.sampled_from([0.0,0.0,0.25,0.5,1.0]))) for _ in range(nc)]
    dyadic=draw(st.booleans())
    if dyadic: q0=[(draw(st.sampled_from([1.0,2.0,4.0,8.0,16.0])),)*2 for _ in range(nc)]
    else: q0=[(lambda p,s:(round(p*(1-s),4),p))(draw(st.floats(1,500).map(lambda x:round(x,2))),draw(st.sampled_from([0,0.001,0.02]))) for _ in range(nc)]
    w0=[draw(dy) for _ in range(nc)]; w1=[draw(dy) for _ in range(nc)]
    if not dyadic: w1=[w+draw(st.sampled_from([0,1e-3,-1e-3,0.013])) if w!=0 else 0.0 for w in w1]
    thr=draw(st.sampled_from([0.0,0.0,0.25,0.125,0.05,0.5])); frac=draw(st.booleans())
    return dict(specs=specs,q0=q0,w0=w0,w1=w1,thr=thr,frac=frac,dyadic=dyadic,fees=draw(st.sampled_from([(0,0),(0.5,0.001)])))
def run(c):
    cs=[C(f'K{i}',m,mr) for i,(m,mr) in enumerate(c['specs'])]
    ex=Exchange(); ex.process_EventNBBO(EventNBBO(t0,Cash(),1.,1.)); ex.process_EventNBBO(EventNBBO(t0,Rate('R'),0.,0.))
    for x,(b,a) in zip(cs,c['q0']): ex.process_EventNBBO(EventNBBO(t0,x,b,a))
    br=Broker(ex,deposit=1024.,fees=BrokerFees(0.0,Rate('R'),c['fees'][1],c['fees'][0]))
    br.rebalance(Rebalancing(cs,c['w0'],time=t0))
    nlv=br.net_liquidation_value(False)
    if nlv<=0: return 'broke'
    held=br.holdings_quantity
    rb=Rebalancing(cs,c['w1'],margin=c['thr'],fractional=c['frac'],time=t0+timedelta(days=1))
    # oracle
    exp={}; band=False
    for x,(b,a),w in zip(cs,c['q0'],c['w1']):
        h=held.get(x,0.0)
        tgt= w*nlv/(a if w>0 else b)/x.multiplier if w!=0 else 0.0
        imb=tgt-h
        if imb==0: continue
        iw=x.multiplier*imb*(a if imb>0 else b)/nlv
        liquid = (h!=0 and w==0)
        q=imb
        if not c['frac']:
            if abs(imb-round(imb))<1e-9: band=True
            q=float(int(imb)); iw2=x.multiplier*q*(a if q>0 else b)/nlv
            if (abs(iw)>=c['thr'])!=(abs(iw2)>=c['thr']) and not liquid: band=True
        if abs(abs(iw)-c['thr'])<=1e-12*max(1,c['thr']) and not c['dyadic'] and not liquid: band=True
        if (abs(iw)>=c['thr'] or liquid) and q!=0: exp[x]=q
    try: trades=rb.make_trades(br)
    except ValueError as e:
        if 'is zero' in str(e): return 'KF-zero-lot'
        raise
    if band: return 'band'
    got={t.contract:t.quantity for t in trades}
    assert set(got)==set(exp), (got,exp)
    for k in got:
        assert math.isclose(got[k],exp[k],rel_tol=1e-9,abs_tol=1e-9), (got,exp)
        assert got[k]!=0 and (c['frac'] or got[k]==int(got[k]))
    # C03 part when no threshold & fractional
    if c['thr']==0 and c['frac']:
        br.rebalance(rb)
        hq=br.holdings_quantity
        for x,(b,a),w in zip(cs,c['q0'],c['w1']):
            q=hq.get(x,0.0)
            if w==0: assert q==0.0
            else: assert math.isclose(q*x.multiplier*(a if w>0 else b), w*nlv, rel_tol=1e-9), (q,w,nlv)
    return 'ok'
stats={}
@seed(int(sys.argv[1]))
@settings(max_examples=int(sys.argv[2]), deadline=None, database=None, suppress_health_check=list(HealthCheck))
@given(case())
def test(c):
    r=run(c); stats[r]=stats.get(r,0)+1
try: test()
finally: print(stats)
