import warnings; warnings.filterwarnings('ignore')
from datetime import datetime, timedelta
import numpy as np, bisect
from hypothesis import given, settings, strategies as st, seed
from tradingenv.transmitter import Transmitter
from tradingenv.events import IEvent

class Ping(IEvent):
    def __init__(self, time, uid): self.time=time; self.uid=uid
    def __repr__(self): return f'P{self.uid}@{self.time}'
T0=datetime(2020,1,1)
@st.composite
def case(draw):
    n=draw(st.integers(1,6))
    gaps=draw(st.lists(st.integers(2,200000),min_size=n,max_size=n))  # seconds
    grid=[]; t=0
    for g in gaps: t+=g; grid.append(t)
    mingap=min(gaps[1:]) if n>1 else 10**9
    lat=draw(st.sampled_from([0,1,mingap-1 if mingap<10**9 else 5, max(0,mingap//2)]))
    lat=max(0,min(lat,mingap-1))
    evs=[]
    m=draw(st.integers(0,12))
    for i in range(m):
        gi=draw(st.integers(0,n-1)); off=draw(st.sampled_from([-3,-1,0,1,lat-1,lat,lat+1,lat+2, 10**6]))
        evs.append(grid[gi]+off)
    evs+= [draw(st.integers(-5, grid[-1]+5)) for _ in range(draw(st.integers(0,4)))]
    markov=draw(st.booleans()); warm=draw(st.sampled_from([None,None,1,100,100000]))
    dup=draw(st.booleans()); shuffle=draw(st.permutations(grid+ (grid[:1] if dup else [])))
    fs=draw(st.integers(0,n-1)); fe=draw(st.integers(fs,n-1))
    foff=draw(st.sampled_from([0,0,1,-1]))
    if markov: evs=[e for e in evs if e>=grid[0]]
    return dict(grid=list(shuffle), lat=lat, evs=evs, markov=markov, warm=warm, fold=(grid[fs]+foff, grid[fe]+max(foff,0)))
def run(c):
    dt=lambda s: T0+timedelta(seconds=s)
    tr=Transmitter([dt(s) for s in c['grid']], folds={'f':[dt(c['fold'][0]), dt(c['fold'][1])]}, markov_reset=c['markov'], warmup=timedelta(seconds=c['warm']) if c['warm'] else None)
    events=[Ping(dt(s),i) for i,s in enumerate(c['evs'])]
    tr.add_events(events)
    tr._create_partitions(c['lat'])
    # oracle
    grid=sorted(set(c['grid']))
    slot={}; latent={}
    for i,s in enumerate(c['evs']):
        if s>grid[-1]: continue
        k=bisect.bisect_left(grid,s); slot[i]=grid[k]
        prev=grid[k-1] if k>0 else None
        latent[i]= prev is not None and (s-prev)<=c['lat']
    steps=sorted(set(slot.values())); steps=[s for s in steps if c['fold'][0]<=s<=c['fold'][1]]
    got=[]
    for rep in range(2):
        tr._reset('f'); seq=[]
        while True:
            try: a,b=tr._next()
            except StopIteration: break
            seq.append(([e.uid for e in a],[e.uid for e in b], tr._now()))
        got.append(seq)
    assert got[0]==got[1], 'repeat differs'
    seq=got[0]
    assert [x[2] for x in seq]==[dt(s) for s in steps], (seq, steps)
    order=sorted(range(len(c['evs'])), key=lambda i:(c['evs'][i], i))
    for j,(a,b,now) in enumerate(seq):
        s=steps[j]
        if j==0 and not c['markov']:
            origin = s-c['warm'] if c['warm'] else -10**18
            expa=[i for i in order if i in slot and origin<=slot[i]<=s and latent[i]]
            expb=[i for i in order if i in slot and origin<=slot[i]<=s and not latent[i]]
        else:
            expa=[i for i in order if slot.get(i)==s and latent[i]]
            expb=[i for i in order if slot.get(i)==s and not latent[i]]
            if c['markov'] and j==0:
                # events before grid[0] unconstrained
                a=[i for i in a if c['evs'][i]>=grid[0]]; b=[i for i in b if c['evs'][i]>=grid[0]]
                expa=[i for i in expa if c['evs'][i]>=grid[0]]; expb=[i for i in expb if c['evs'][i]>=grid[0]]
        assert a==expa and b==expb, (j,a,expa,b,expb)
stats={'n':0,'steps':0}
@seed(1)
@settings(max_examples=3000, deadline=None, database=None)
@given(case())
def test(c):
    stats['n']+=1
    try: run(c)
    except ValueError as e:
        if 'latency' in str(e): return
        raise
test(); print('ok', stats)
