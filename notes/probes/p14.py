import warnings; warnings.filterwarnings('ignore')
import sys, calendar, re, time
from datetime import date, datetime, timedelta
import pandas as pd
from tradingenv.contracts import ES, NK, VX, ZN, ZT, ZF, ZB, ZQ, FutureChain, AbstractContract, Future
import tradingenv; print(tradingenv.__file__)
MC=Future.month_codes
def kth_friday(y,m,k):
    d=date(y,m,1); return d+timedelta(days=(4-d.weekday())%7+7*(k-1))
def last_weekday(y,m):
    d=date(y,m,calendar.monthrange(y,m)[1])
    while d.weekday()>=5: d-=timedelta(days=1)
    return d
def ref_expiry(cls,y,m):
    if cls is ES: return kth_friday(y,m,3)
    if cls is NK: return kth_friday(y,m,2)
    if cls is VX:
        ny,nm=(y+1,1) if m==12 else (y,m+1); return kth_friday(ny,nm,3)-timedelta(days=30)
    return last_weekday(y,m)
def asdate(x): return pd.Timestamp(x).date()
t=time.time(); n=0; bad=[]
for cls in [ES,NK,VX,ZN,ZT,ZF,ZB,ZQ]:
    for y in range(1970,2100):
        for m in range(1,13):
            f=cls(y,m); n+=1
            e=ref_expiry(cls,y,m)
            ok = asdate(f.expiry)==e and pd.Timestamp(f.expiry)==pd.Timestamp(e) and pd.Timestamp(f.last_trading_date)<pd.Timestamp(f.expiry)
            ok = ok and f.symbol==f'{cls.__name__}{MC[e.month]}{e.year%100:02d}'
            if cls is VX: ok = ok and e.weekday()==2 and e.month==m
            if not ok: bad.append((cls.__name__,y,m,f.expiry,e,f.last_trading_date,f.symbol))
print('contracts',n,'bad',len(bad),bad[:5],'secs',round(time.time()-t,1))
# chains
import random
for cls in [ES,NK,VX,ZN]:
    try:
        ch=FutureChain(cls,'1999-11','2031-02')
        ex=[pd.Timestamp(c.expiry) for c in ch.contracts]; lt=[pd.Timestamp(c.last_trading_date) for c in ch.contracts]
        print(cls.__name__, len(ch.contracts), all(a<b for a,b in zip(ex,ex[1:])), all(a<b for a,b in zip(lt,lt[1:])), len({c.symbol for c in ch.contracts})==len(ch.contracts), [ (type(e).__name__) for e in ch.make_events()[:1]], len(ch.make_events())==len(ch.contracts))
        # lead at exact instants
        for i,c in enumerate(ch.contracts[:-1]):
            for dt_,exp in [(c.last_trading_date-timedelta(microseconds=1),i),(c.last_trading_date,i+1),(c.last_trading_date+timedelta(microseconds=1),i+1)]:
                assert ch.lead_contract(dt_) is ch.contracts[exp], (cls,c,dt_)
                AbstractContract.now=dt_; assert ch.static_hashing() is ch.contracts[exp] and ch.symbol==ch.contracts[exp].symbol
    except Exception as e: print(cls.__name__,'raised',type(e).__name__,e)
