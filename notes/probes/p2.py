import warnings; warnings.filterwarnings('ignore')
from datetime import datetime, timedelta
import numpy as np, pandas as pd
from tradingenv.env import TradingEnv
from tradingenv.transmitter import Transmitter
from tradingenv.events import EventNBBO, IEvent
from tradingenv.contracts import ETF, ES, Cash, Rate, FutureChain, VX, AbstractContract
from tradingenv.spaces import BoxPortfolio, DiscretePortfolio
from tradingenv.state import IState
from tradingenv.features import Feature
from tradingenv.broker.broker import EndOfEpisodeError

class Rec(Feature):
    log=None
    def __init__(self): super().__init__(); 
    def _r(self,e): Rec.log.append((type(e).__name__, e.time))
    def process_EventNBBO(self,event): self._r(event)
    def process_EventReset(self,event): self._r(event)
    def process_EventStep(self,event): self._r(event)
    def process_EventDone(self,event): self._r(event)
    def process_EventNewDate(self,event): self._r(event)

# 1. clock after new date: one event per day
spy=ETF('SPY')
days=[datetime(2020,1,d) for d in (1,2,3,6)]
tr=Transmitter(days); tr.add_events([EventNBBO(d,spy,100.+i,100.+i) for i,d in enumerate(days)])
Rec.log=[]
env=TradingEnv(BoxPortfolio([spy]), state=IState([Rec()]), transmitter=tr)
env.reset(); print('now after reset',env.now())
done=False
while not done:
    o,r,done,info=env.step(np.array([0.5])); print('now after step',env.now(), 'reb time', info.get('_rebalancing') and info['_rebalancing'].time)
for x in Rec.log: print(x)
