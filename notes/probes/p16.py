import warnings; warnings.filterwarnings('ignore')
import sys, math
from decimal import Decimal, getcontext
from datetime import datetime, timedelta
import numpy as np
from hypothesis import given, settings, strategies as st, seed, HealthCheck
from tradingenv.env import TradingEnv
from tradingenv.transmitter import Transmitter
from tradingenv.events import EventNBBO
from tradingenv.contracts import ETF, Cash, Rate
from tradingenv.spaces import BoxPortfolio, DiscretePortfolio
from tradingenv.broker.broker import Broker
from tradingenv.broker.fees import BrokerFees
from tradingenv.exchange import Exchange
import tradingenv; print(tradingenv.__file__)
getcontext().prec=50
# ---- C17 malformed
days=[datetime(2020,1,d) for d in (1,2,3,6,7,8)]
a,b=ETF('A'),ETF('B')
def mkenv(space,delay):
    tr=Transmitter(days); tr.add_events([EventNBBO(d,c,100.,100.) for d in days for c in (a,b)])
    return TradingEnv(space,transmitter=tr,steps_delay=delay)
bad_box=[np.array([0.5]), np.array([[0.5,0.1]]), np.array([1.0000001,0.0]), np.array([-1.0000001,0.0]), np.array([np.nan,0.0]), np.array([np.inf,0.]), 'x', None, [0.1,'y'], np.array([0.1,0.2,0.3])]
bad_disc=[3,7,-1,1.5,float('nan'),'x',None,np.array([1,2])]
for name,space,bads,good in [('box',lambda:BoxPortfolio([a,b,Cash()] if False else [a,b],-1,1),bad_box,np.array([0.2,0.3])),('disc',lambda:DiscretePortfolio([a,b],[[0,0],[0.5,0.5],[1,0]]),bad_disc,1)]:
    for delay in (0,1,2):
        for bad in bads:
            env=mkenv(space(),delay); env.reset(); env.step(good)
            n0=len(env.broker.track_record); raised_at=None
            seq=[bad,good,good,good]
            for k,act in enumerate(seq):
                h=dict(env.broker.holdings_quantity); n=len(env.broker.track_record)
                try: env.step(act)
                except Exception as e:
                    raised_at=k; assert dict(env.broker.holdings_quantity)==h and len(env.broker.track_record)==n, ('state changed',name,delay,bad); break
            if raised_at is None or raised_at>delay: print('NOT REJECTED IN TIME', name, delay, repr(bad), raised_at)
print('C17 probe done')
# ---- C06 closed form
t0=datetime(2020,1,1); SY=365*86400
@st.composite
def case(draw):
    cash=draw(st.sampled_from([100.0,-250.0,1e6,-3.5,0.01])); r=draw(st.sampled_from([0.0,0.03,-0.02,0.2,0.2499])); mk=draw(st.sampled_from([0.0,0.005,0.05]))
    T=draw(st.sampled_from([1,59,86400,SY,SY*30+12345, 7*86400])); k=draw(st.integers(0,8))
    cuts=sorted(set(draw(st.lists(st.integers(1,max(1,T-1)),min_size=k,max_size=k)))) if T>1 else []
    qs=draw(st.lists(st.integers(0,T),max_size=4))
    return dict(cash=cash,r=r,mk=mk,T=T,cuts=cuts,qs=qs)
def mk(c):
    ex=Exchange(); R=Rate('R'); ex.process_EventNBBO(EventNBBO(t0,Cash(),1.,1.)); ex.process_EventNBBO(EventNBBO(t0,R,c['r'],c['r']))
    return Broker(ex,deposit=c['cash'],fees=BrokerFees(c['mk'],R,0.,0.))
def run(c):
    if 1+c['r']-c['mk']<=0: return 'skip'
    A=mk(c); B=mk(c); Q=mk(c)
    A.accrued_interest(t0,True); B.accrued_interest(t0,True); Q.accrued_interest(t0,True)
    A.accrued_interest(t0+timedelta(seconds=c['T']),True)
    pts=c['cuts']+[c['T']]
    ev=sorted([(p,'a') for p in pts]+[(q,'q') for q in c['qs']], key=lambda x:(x[0],x[1]=='a'))
    for p in pts: B.accrued_interest(t0+timedelta(seconds=p),True)
    for p,k in ev:
        if k=='q':
            cashb=Q.holdings_quantity[Cash()]; v=Q.accrued_interest(t0+timedelta(seconds=p),False); assert Q.holdings_quantity[Cash()]==cashb
        else: Q.accrued_interest(t0+timedelta(seconds=p),True)
    ca,cb,cq=(x.holdings_quantity[Cash()] for x in (A,B,Q))
    assert cq==cb, ('query twin',cq,cb)
    rate=Decimal(repr(c['r']))-(Decimal(repr(c['mk'])) if c['cash']>0 else -Decimal(repr(c['mk'])))
    g=(Decimal(1)+rate)
    exp=Decimal(repr(c['cash']))*(g.ln()*Decimal(c['T'])/Decimal(SY)).exp()
    if c['cash']>0 and rate<0: exp=Decimal(repr(c['cash']))
    tol=1e-9*(len(pts)+1)
    assert math.isclose(ca,float(exp),rel_tol=tol), ('closed',ca,float(exp))
    assert math.isclose(cb,float(exp),rel_tol=tol), ('split',cb,float(exp))
    assert A.accrued_interest(t0+timedelta(seconds=c['T']),True)==0
    try: A.accrued_interest(t0+timedelta(seconds=c['T']-1),True); assert False,'past accepted'
    except ValueError: pass
    return 'ok'
stats={}
@seed(1)
@settings(max_examples=3000, deadline=None, database=None, suppress_health_check=list(HealthCheck))
@given(case())
def test(c):
    r=run(c); stats[r]=stats.get(r,0)+1
try: test()
finally: print(stats)
