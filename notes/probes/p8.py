import warnings; warnings.filterwarnings('ignore')
from datetime import datetime, timedelta
import numpy as np
from tradingenv.env import TradingEnv
from tradingenv.transmitter import Transmitter
from tradingenv.events import EventNBBO
from tradingenv.contracts import ETF
from tradingenv.spaces import BoxPortfolio
spy=ETF('SPY'); days=[datetime(2020,1,1)+timedelta(days=i) for i in range(8)]
def mk(n, folds=None):
    tr=Transmitter(days, folds=folds); tr.add_events([EventNBBO(d,spy,100.,100.) for d in days])
    return TradingEnv(BoxPortfolio([spy]), transmitter=tr, episode_length=n)
for n in [1,2,6,7,8,9]:
    env=mk(n, folds={'f':[days[0],days[7]]})
    starts=set(); cnt=set()
    try:
        for s in range(300):
            np.random.seed(s); env.reset('f'); st0=env.now(); k=0; done=False
            while not done: _,_,done,_=env.step(np.array([0.])); k+=1
            starts.add(days.index(st0)); cnt.add(k)
        print('n',n,'starts',sorted(starts),'decisions',cnt)
    except Exception as e: print('n',n,'raised',type(e).__name__,e)
env=mk(None)
for L in [1,2]:
    try:
        np.random.seed(0); env.reset(episode_length=L); print('reset(episode_length=%d) ok now'%L, env.now(), 'done', env._done)
    except Exception as e: print('reset len',L,'raised',type(e).__name__,e)
tr=Transmitter(days)
for a,b,sl in [(3,2,True),(3,2,False),(1,1,True),(7,1,True),(5,3,True),(8,1,True)]:
    f=tr.walk_forward(a,b,sl); print(a,b,sl, list(f.train_start), list(f.train_end), list(f.test_start), list(f.test_end))
