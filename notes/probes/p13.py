import warnings; warnings.filterwarnings('ignore')
import sys, math
from datetime import datetime, timedelta
import numpy as np
from hypothesis import given, settings, strategies as st, seed, HealthCheck
from tradingenv.broker.broker import Broker, EndOfEpisodeError
from tradingenv.broker.rebalancing import Rebalancing
from tradingenv.broker.fees import BrokerFees
from tradingenv.exchange import Exchange
from tradingenv.events import EventNBBO, EventContractDiscontinued
from tradingenv.contracts import AbstractContract, Cash, Rate
import tradingenv; print(tradingenv.__file__)
class C(AbstractContract):
    def __init__(s, sym, mult, mr): s._s=sym; s._m=mult; s._mr=mr
    symbol=property(lambda s:s._s); multiplier=property(lambda s:s._m); margin_requirement=property(lambda s:s._mr)
    cash_requirement=property(lambda s: 0.0 if s._mr>0 else 1.0)
t0=datetime(2020,1,1); nan=float('nan')
wv=st.sampled_from([0.0,0.0,0.3,-0.3,0.6,-0.5])
@st.composite
def case(draw):
    nc=draw(st.integers(1,4))
    specs=[(draw(st.sampled_from([1.0,2.0,10.0])), draw(st.sampled_from([0.0,0.0,0.1,0.5]))) for _ in range(nc)]
    w0=[draw(wv) for _ in range(nc)]
    faults=[draw(st.sampled_from(['ok','ok','nobid','noask','none','dead','never'])) for _ in range(nc)]
    w1=[draw(wv) for _ in range(nc)]
    return dict(specs=specs,w0=w0,faults=faults,w1=w1)
def run(c):
    cs=[C(f'K{i}',m,mr) for i,(m,mr) in enumerate(c['specs'])]
    ex=Exchange(); ex.process_EventNBBO(EventNBBO(t0,Cash(),1.,1.)); ex.process_EventNBBO(EventNBBO(t0,Rate('R'),0.,0.))
    br=Broker(ex,deposit=1000.,fees=BrokerFees(0.0,Rate('R'),0.001,0.1))
    book={}
    for x,f,w in zip(cs,c['faults'],c['w0']):
        if f=='never' : continue
        ex.process_EventNBBO(EventNBBO(t0,x,99.,101.)); book[x]=(99.,101.)
    w0=[0.0 if f=='never' else w for f,w in zip(c['faults'],c['w0'])]
    br.rebalance(Rebalancing(cs,w0,time=t0))
    t1=t0+timedelta(days=1)
    for x,f in zip(cs,c['faults']):
        if f=='nobid': ex.process_EventNBBO(EventNBBO(t1,x,nan,102.)); book[x]=(nan,102.)
        elif f=='noask': ex.process_EventNBBO(EventNBBO(t1,x,98.,nan)); book[x]=(98.,nan)
        elif f=='none': ex.process_EventNBBO(EventNBBO(t1,x,nan,nan)); book[x]=(nan,nan)
        elif f=='dead': ex.process_EventContractDiscontinued(EventContractDiscontinued(t1,x)); ex.process_EventNBBO(EventNBBO(t1,x,98.,102.)); book[x]=(nan,nan)
        elif f=='ok': ex.process_EventNBBO(EventNBBO(t1,x,98.,102.)); book[x]=(98.,102.)
    held=br.holdings_quantity
    def side_missing(x,q):  # liquidation side
        b,a=book.get(x,(nan,nan)); return math.isnan(b if q>0 else a)
    need_val=any(q!=0 and side_missing(x,q) for x,q in held.items() if x in cs)
    vals=[lambda:br.net_liquidation_value(), lambda:br.net_liquidation_value(False), lambda:br.holdings_values(), lambda:br.holdings_values('liquidation'), lambda:br.holdings_weights(), lambda:br.context()]
    for f in vals:
        try: r=f(); raised=False
        except EndOfEpisodeError: raised='eoe'
        except Exception: raised=True
        if need_val: assert raised is True, ('valuation must raise',c)
        else: assert raised is not True, ('valuation must not raise',c)
    # rebalance
    need_reb=need_val
    fully=True
    for x,w in zip(cs,c['w1']):
        b,a=book.get(x,(nan,nan)); h=held.get(x,0.0)
        if w!=0 and math.isnan(a if w>0 else b): need_reb=True
        if (w!=0 or h!=0) and (math.isnan(a) or math.isnan(b)): fully=False
    before=(dict(br.holdings_quantity),len(br.track_record))
    try: br.rebalance(Rebalancing(cs,c['w1'],time=t1)); raised=False
    except EndOfEpisodeError: raised='eoe'
    except Exception as e: raised=True
    if need_reb: assert raised is True, ('rebalance must raise',c)
    if fully and not need_val and raised is True: assert False, ('rebalance must not raise',c)
    if raised:
        after={k:v for k,v in br.holdings_quantity.items() if k in cs}
        assert after=={k:v for k,v in before[0].items() if k in cs} and len(br.track_record)==before[1], ('atomicity',c)
    else:
        assert math.isfinite(br.net_liquidation_value(False))
    return ('need' if need_reb else 'fully' if fully else 'partial')+('-raised' if raised is True else '')
stats={}
@seed(int(sys.argv[1]))
@settings(max_examples=int(sys.argv[2]), deadline=None, database=None, suppress_health_check=list(HealthCheck))
@given(case())
def test(c):
    r=run(c); stats[r]=stats.get(r,0)+1
try: test()
finally: print(stats)
