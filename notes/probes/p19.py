import warnings; warnings.filterwarnings('ignore')
import sys, math
from datetime import datetime, timedelta
import numpy as np
from hypothesis import given, settings, strategies as st, seed, HealthCheck
from tradingenv.env import TradingEnv
from tradingenv.transmitter import Transmitter
from tradingenv.events import EventNBBO
from tradingenv.contracts import ETF, AbstractContract
from tradingenv.spaces import BoxPortfolio
from tradingenv.broker.broker import EndOfEpisodeError
from tradingenv.rewards import RewardSimpleReturn, RewardLogReturn, RewardPnL, LogReturn
import tradingenv; print(tradingenv.__file__)
class UFut(AbstractContract):
    cash_requirement=0.0
    def __init__(s, sym, mult, mr): s._s=sym; s._m=mult; s._mr=mr
    symbol=property(lambda s:s._s); multiplier=property(lambda s:s._m); margin_requirement=property(lambda s:s._mr)
T0=datetime(2020,1,1,9,30)
@st.composite
def case(draw):
    n=draw(st.integers(3,7)); j=draw(st.integers(1,n-1)); phase=draw(st.sampled_from(['nonlatent','nonlatent','latent']))
    w=draw(st.sampled_from([2.0,3.0,5.0,-1.0,-2.0,-4.0])); kind=draw(st.sampled_from(['etf','fut']))
    rw=draw(st.sampled_from(['simple','log','pnl','LogReturn'])); after=draw(st.lists(st.sampled_from(['step','reset']),min_size=1,max_size=4))
    exact=draw(st.booleans()); recover=draw(st.booleans())
    return dict(n=n,j=j,phase=phase,w=w,kind=kind,rw=rw,after=after,exact=exact,recover=recover)
def run(c):
    AbstractContract.now=datetime.min
    x=ETF('E') if c['kind']=='etf' else UFut('F',10.,0.1)
    grid=[T0+timedelta(minutes=i) for i in range(c['n'])]; lat=10
    w=c['w']; p0=64.0
    # ruin price: NLV = 100*(1 + w*(p/p0-1)) <= 0  -> p/p0 = 1-1/w
    ratio=1-1/w; pr=p0*ratio if c['exact'] else p0*(ratio-0.1*np.sign(w))
    ev=[]
    for i,t in enumerate(grid):
        price = p0 if i<c['j'] else (pr if not (c['recover'] and i>c['j']) else p0)
        if c['phase']=='latent' and i==c['j']:
            ev.append(EventNBBO(grid[i-1]+timedelta(seconds=5),x,pr,pr)); 
        ev.append(EventNBBO(t,x,price if not(c['phase']=='latent' and i==c['j']) else pr,price if not(c['phase']=='latent' and i==c['j']) else pr))
    tr=Transmitter(grid); tr.add_events(ev)
    rw={'simple':RewardSimpleReturn(),'log':RewardLogReturn(),'pnl':RewardPnL(),'LogReturn':LogReturn(0.01,2.,0.1)}[c['rw']]
    env=TradingEnv(BoxPortfolio([x],-6.,6.), transmitter=tr, latency=lat, reward=rw, initial_cash=100.)
    env.reset(); res=[]
    ruined=False
    for k in range(c['n']-1):
        h=dict(env.broker.holdings_quantity); nrec=len(env.broker.track_record)
        try: o,r,d,info=env.step(np.array([w])); res.append(('ret',d))
        except EndOfEpisodeError: res.append(('EOE',None)); d=None
        except Exception as e: res.append((type(e).__name__,None)); d=None
        nlv=env.broker.net_liquidation_value(False)
        if nlv<=0 and not ruined:
            ruined=True; ruin_step=k; first=res[-1]
            break
    if not ruined: return 'noruin'
    # ruin step outcome
    tag=f"{c['phase']}:{first[0]}:{first[1]}"
    # no trade while broke + refused until reset
    for a in c['after']:
        if a=='reset':
            env.reset(); o,r,d,info=env.step(np.array([0.5])); assert len(env.broker.track_record)==1; break
        h=dict(env.broker.holdings_quantity); nrec=len(env.broker.track_record)
        try: env.step(np.array([w])); tag+='|step-ret'
        except EndOfEpisodeError: tag+='|EOE'
        assert {k:v for k,v in env.broker.holdings_quantity.items() if k==x}=={k:v for k,v in h.items() if k==x} and len(env.broker.track_record)==nrec, ('traded while broke',c,tag)
    return tag
stats={}
@seed(int(sys.argv[1]))
@settings(max_examples=int(sys.argv[2]), deadline=None, database=None, suppress_health_check=list(HealthCheck))
@given(case())
def test(c):
    r=run(c); stats[r]=stats.get(r,0)+1
try: test()
finally:
    for k,v in sorted(stats.items()): print(v,k)
import json
@seed(3)
@settings(max_examples=300, deadline=None, database=None, suppress_health_check=list(HealthCheck))
@given(case())
def test2(c):
    r=run(c)
    if r.startswith('nonlatent:EOE'): print('CASE',c,r)
test2()
