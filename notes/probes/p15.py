import warnings; warnings.filterwarnings('ignore')
import sys, math
from datetime import datetime, timedelta, date
import numpy as np, pandas as pd
from hypothesis import given, settings, strategies as st, seed, HealthCheck
import tradingenv
def std1(x): 
    x=np.asarray(x,float); 
    return float('nan') if len(x)<2 else math.sqrt(sum((v-x.mean())**2 for v in x)/(len(x)-1))
def quant(x,q):
    x=sorted(x); pos=(len(x)-1)*q; lo=int(math.floor(pos)); hi=min(lo+1,len(x)-1); return x[lo]+(x[hi]-x[lo])*(pos-lo)
def ref(times,vals,rf=0.0):
    # collapse to last per date
    days={}; 
    for t,v in zip(times,vals): days[t.date()]=v
    lv=[days[d] for d in sorted(days)]
    r=[b/a-1 for a,b in zip(lv,lv[1:])]
    years=(times[-1]-times[0]).days/365
    out={}
    out['cagr']=(lv[-1]/lv[0])**(1/years)-1
    out['volatility']=math.sqrt(252)*std1(r)
    run=[]; m=-1
    for v in lv: m=max(m,v); run.append(v/m-1)
    out['drawdown']=run; out['max_drawdown']=min(run)
    if r:
        out['value_at_risk']=quant(r,0.025); out['expected_shortfall']=float(np.mean([x for x in r if x<=out['value_at_risk']]))
    out['downside_volatility']=math.sqrt(252)*std1([x for x in r if x<0]); out['upside_volatility']=math.sqrt(252)*std1([x for x in r if x>0])
    out['martin_risk']=math.sqrt(np.mean(np.square(run)))
    ex=out['cagr']-rf
    out['sharpe_ratio']=ex/out['volatility'] if out['volatility'] and not math.isnan(out['volatility']) else None
    out['sortino_ratio']=ex/out['downside_volatility'] if out['downside_volatility'] and not math.isnan(out['downside_volatility']) else None
    out['calmar_ratio']=ex/-out['max_drawdown'] if out['max_drawdown']<0 else None
    out['martin_ratio']=ex/out['martin_risk'] if out['martin_risk']>0 else None
    return out,r
@st.composite
def case(draw):
    n=draw(st.integers(2,60)); kind=draw(st.sampled_from(['D','B','irr','intra']))
    t=datetime(2015,1,1)+timedelta(days=draw(st.integers(0,3000))); times=[]
    for i in range(n):
        if kind=='D': t+=timedelta(days=1)
        elif kind=='B':
            t+=timedelta(days=1)
            while t.weekday()>=5: t+=timedelta(days=1)
        elif kind=='irr': t+=timedelta(days=draw(st.integers(1,40)))
        else: t+=timedelta(hours=draw(st.sampled_from([1,3,7,20,30,50])))
        times.append(t)
    if (times[-1]-times[0]).days<1: times[-1]=times[-1]+timedelta(days=2)
    v=100.0; vals=[]
    for i in range(n):
        v*=1+draw(st.sampled_from([0.0,0.01,-0.01,0.05,-0.07,0.002,-0.2,0.3])); vals.append(v)
    return dict(times=times,vals=vals,c=draw(st.sampled_from([0.5,2.0,1024.0,3.7,1e-4])),rf=draw(st.sampled_from([0.0,0.02])))
def close(a,b):
    if b is None: return True
    if isinstance(a,float) and math.isnan(a): return isinstance(b,float) and math.isnan(b)
    return math.isclose(a,b,rel_tol=1e-9,abs_tol=1e-12)
def run(c):
    s=pd.Series(c['vals'],index=pd.DatetimeIndex(c['times']),name='x')
    R,r=ref(c['times'],c['vals'],c['rf'])
    for m in ['cagr','volatility','max_drawdown','value_at_risk','expected_shortfall','downside_volatility','upside_volatility','martin_risk']:
        if m in R:
            a=float(getattr(s,m)()); assert close(a,R[m]), (m,a,R[m])
    for m in ['sharpe_ratio','sortino_ratio','calmar_ratio','martin_ratio']:
        a=float(getattr(s,m)(c['rf'])); assert close(a,R[m]), (m,a,R[m])
    dd=list(s.drawdown()); assert all(close(a,b) for a,b in zip(dd,R['drawdown'])) and len(dd)==len(R['drawdown'])
    assert all(-1<x<=0 for x in dd)
    sr=list(s.simple_returns()); assert len(sr)==len(r) and all(close(a,b) for a,b in zip(sr,r))
    # scaling
    s2=s*c['c']
    for m in ['cagr','volatility','max_drawdown','value_at_risk','expected_shortfall','downside_volatility','martin_risk','sharpe_ratio','calmar_ratio']:
        a=float(getattr(s,m)()); b=float(getattr(s2,m)())
        assert (math.isnan(a) and math.isnan(b)) or (math.isinf(a) and a==b) or math.isclose(a,b,rel_tol=1e-7,abs_tol=1e-10), ('scale',m,a,b)
    # dataframe agrees with series
    df=pd.DataFrame({'a':s,'b':s*2})
    for m in ['cagr','volatility','max_drawdown','value_at_risk','expected_shortfall','downside_volatility','martin_risk','sharpe_ratio']:
        x=getattr(df,m)(); a=float(getattr(s,m)())
        assert close(float(x['a']),a) or math.isclose(float(x['a']),a,rel_tol=1e-9), ('df',m,x['a'],a)
    return 'ok'
stats={}
@seed(int(sys.argv[1]))
@settings(max_examples=int(sys.argv[2]), deadline=None, database=None, suppress_health_check=list(HealthCheck))
@given(case())
def test(c):
    r=run(c); stats[r]=stats.get(r,0)+1
try: test()
finally: print(stats)
