import warnings; warnings.filterwarnings('ignore')
from datetime import datetime, timedelta
import numpy as np, pandas as pd, traceback, time
from tradingenv.env import TradingEnvXY
from tradingenv.contracts import Asset, Rate
import pandas_market_calendars as pmc

rng=np.random.default_rng(0)
def probe(window, stride, transformer, n=60, start='2019-12-20', xoff=0, folds=None, fold='training-set', nan_frac=0.1, episode_length=None, calendar='NYSE', freq='D'):
    idx=pd.date_range(start, periods=n, freq=freq)
    Y=pd.DataFrame(100*np.exp(np.cumsum(rng.normal(0,0.01,(n,2)),0)), index=idx, columns=['A','B'])
    xi=pd.date_range(pd.Timestamp(start)+pd.Timedelta(days=xoff), periods=n, freq=freq)
    X=pd.DataFrame(rng.normal(0,1,(n,3)), index=xi, columns=['f0','f1','f2'])
    X=X.mask(rng.random(X.shape)<nan_frac); Y=Y.mask(rng.random(Y.shape)<nan_frac)
    rate=pd.Series(rng.uniform(0,0.05,n), index=idx, name='r')
    t=time.time()
    env=TradingEnvXY(X,Y,transformer=transformer,window=window,stride=stride,rate=rate,spread=0.01,folds=folds, episode_length=episode_length, calendar=calendar, transformer_end=idx[n//2])
    tb=time.time()-t
    hol=set(pd.to_datetime(pmc.get_calendar(calendar).holidays().holidays))
    obs=env.reset(fold) if fold!='training-set' else env.reset()
    bad=0; steps=0; done=False
    while True:
        now=env.now(); steps+=1
        exp=env.X.loc[:now].iloc[-window:].values
        if stride: exp=exp[::-stride][::-1]
        ok = obs.shape==env.observation_space.shape and np.array_equal(obs,exp) and obs in env.observation_space
        okd = now in Y.index and now not in hol
        for a in env.Y.columns:
            p=env.Y.loc[:now, a].dropna()
            if len(p):
                pp=p.iloc[-1]; book=env.exchange[a]
                if not (np.isclose(book.bid_price, pp-pp*0.01/2, rtol=1e-12) and np.isclose(book.ask_price, pp+pp*0.01/2, rtol=1e-12)): ok=False; print('quote mismatch', now, a, book, pp)
        r=rate.loc[:now].iloc[-1]
        if env.exchange[env._broker_fees.interest_rate].mid_price != r: print('rate mismatch', now, env.exchange[env._broker_fees.interest_rate].mid_price, r); ok=False
        if not (ok and okd):
            bad+=1
            if bad<3: print('  MISMATCH at',now,'\n',obs,'\n',exp, okd)
        if done: break
        obs,r_,done,info=env.step(env.action_space.sample())
    print(f'window={window} stride={stride} tr={transformer} xoff={xoff} fold={fold} steps={steps} bad={bad} build={tb:.2f}s first={env.start} X0={env.X.index[0]}')
for w,s in [(1,None),(3,None),(5,2),(4,3),(2,1)]:
    for trf in [None,'z-score']:
        probe(w,s,trf)
probe(3,None,'yeo-johnson')
probe(3,None,None,xoff=5)
probe(3,None,None,xoff=-5)
f={'a':[datetime(2019,12,1),datetime(2020,1,20)],'b':[datetime(2020,1,21),datetime(2020,3,1)]}
probe(3,None,None,folds=f,fold='b')
probe(1,None,None,folds=f,fold='b')
probe(6,2,'z-score',folds=f,fold='b')
probe(3,None,None,episode_length=5)
