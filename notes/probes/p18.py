import warnings; warnings.filterwarnings('ignore')
import math, sys
from datetime import datetime, timedelta
import numpy as np
import hypothesis
from hypothesis import settings, strategies as st, HealthCheck
from hypothesis.stateful import RuleBasedStateMachine, rule, invariant, run_state_machine_as_test, initialize
from tradingenv.exchange import Exchange
from tradingenv.events import EventNBBO, EventContractDiscontinued
from tradingenv.contracts import ETF, Stock, ES, FutureChain, AbstractContract
nan=float('nan')
CH=FutureChain(ES,'2019-01','2020-03')
SYMS=['A','B','C']+[c.symbol for c in CH.contracts]
def obj(sym):
    for c in CH.contracts:
        if c.symbol==sym: return c
    return ETF(sym)
def same(a,b): return (math.isnan(a) and math.isnan(b)) or a==b
T0=datetime(2019,1,1)
class M(RuleBasedStateMachine):
    def __init__(self):
        super().__init__(); AbstractContract.now=datetime.min; self.ex=Exchange(); self.m={}; self.t=T0; self.log=[]
    def book(self,s): return self.m.setdefault(s,dict(alive=True,bid=nan,ask=nan,hist=[]))
    @rule(s=st.sampled_from(SYMS), bid=st.floats(0.5,100), sp=st.floats(0,5), dt=st.integers(0,10**6))
    def quote(self,s,bid,sp,dt):
        self.t+=timedelta(seconds=dt); self.log.append(('q',s,bid,sp))
        self.ex.process_EventNBBO(EventNBBO(self.t,obj(s),bid,bid+sp,1.,2.))
        b=self.book(s)
        if b['alive']: b['bid'],b['ask']=bid,bid+sp; b['hist'].append((self.t,bid,bid+sp))
    @rule(s=st.sampled_from(SYMS))
    def kill(self,s):
        self.log.append(('k',s)); self.ex.process_EventContractDiscontinued(EventContractDiscontinued(self.t,obj(s)))
        b=self.book(s); b['alive']=False; b['bid']=b['ask']=nan
    @rule(days=st.integers(0,400), us=st.sampled_from([0,1,-1]))
    def clock(self,days,us):
        AbstractContract.now=T0+timedelta(days=days,microseconds=us)
    @invariant()
    def agrees(self):
        for s,b in self.m.items():
            for key in (obj(s), s, Stock(s)):
                lob=self.ex[key]
                assert same(lob.bid_price,b['bid']) and same(lob.ask_price,b['ask']), (s,key,lob,b)
                assert list(zip(lob.history['time'],lob.history['bid_price'],lob.history['ask_price']))==b['hist']
                assert lob.is_alive==b['alive']
                assert same(lob.acq_price(1.),b['ask']) and same(lob.acq_price(-2.),b['bid']) and same(lob.liq_price(1.),b['bid']) and same(lob.acq_price(0),(b['bid']+b['ask'])/2)
        now=AbstractContract.now
        live=[c for c in CH.contracts if c.last_trading_date>now]
        if live:
            lead=live[0]; b=self.m.get(lead.symbol,dict(bid=nan,ask=nan))
            assert same(self.ex[CH].bid_price,b['bid']) and same(self.ex[CH].ask_price,b['ask']), ('chain',now,lead)
hypothesis.seed(1)(M)
run_state_machine_as_test(hypothesis.seed(1)(M), settings=settings(max_examples=300, stateful_step_count=40, deadline=None, database=None, suppress_health_check=list(HealthCheck)))
print('ok')
