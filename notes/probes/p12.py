import warnings; warnings.filterwarnings('ignore')
import sys, math, copy
from datetime import datetime, timedelta
import numpy as np, pandas as pd
from hypothesis import given, settings, strategies as st, seed, HealthCheck
from tradingenv.env import TradingEnv
from tradingenv.transmitter import Transmitter
from tradingenv.events import EventNBBO, IEvent, EventNewObservation
from tradingenv.contracts import ETF, ES, Cash, Rate, AbstractContract, FutureChain
from tradingenv.spaces import BoxPortfolio
from tradingenv.state import IState, State
from tradingenv.features import Feature
from tradingenv.broker.fees import BrokerFees
from tradingenv.broker.broker import EndOfEpisodeError
import gymnasium
import tradingenv; print(tradingenv.__file__)
class Ping(IEvent):
    def __init__(self,time,v): self.time=time; self.v=v
class RunSum(Feature):
    def __init__(self, contracts):
        super().__init__(space=gymnasium.spaces.Box(-np.inf,np.inf,(1,2),float), name='RunSum'); self.contracts=contracts; self.s=0.0; self.p=0.0
    def process_EventNBBO(self,event): self.s+=event.mid_price
    def process_Ping(self,event): self.p=self.p*0.5+event.v
    def parse(self): return np.array([[self.s,self.p]])
T0=datetime(2020,1,1,9,30)
pr=st.floats(50,150).map(lambda x:round(x,2))
@st.composite
def case(draw):
    n=draw(st.integers(3,7)); gaps=draw(st.lists(st.sampled_from([60,3600,86400,3*86400]),min_size=n-1,max_size=n-1))
    grid=[0]
    for g in gaps: grid.append(grid[-1]+g)
    lat=draw(st.sampled_from([0,0,5,30])); nc=draw(st.integers(1,2))
    quotes=[(t,ci,draw(pr)) for t in grid for ci in range(nc)]
    extras=[]
    for _ in range(draw(st.integers(0,8))):
        gi=draw(st.integers(0,n-2)); off=draw(st.sampled_from([1,lat,lat+1,40,59]))
        if 0<off<grid[gi+1]-grid[gi]:
            kind=draw(st.sampled_from(['q','p']))
            extras.append((grid[gi]+off,kind,draw(st.integers(0,nc-1)),draw(pr)))
    acts=[[draw(st.sampled_from([0.0,0.3,-0.4,0.7,1.0])) for _ in range(nc)] for k in range(n-1)]
    cut=draw(st.integers(0,n-2))
    # perturbation: new values for everything after grid[cut]
    pq=[(t,ci,(draw(pr) if t>grid[cut] else p)) for (t,ci,p) in quotes]
    pe=[(t,k,ci,(draw(pr) if t>grid[cut] else v)) for (t,k,ci,v) in extras]
    return dict(grid=grid,lat=lat,nc=nc,quotes=quotes,extras=extras,acts=acts,cut=cut,pq=pq,pe=pe,delay=draw(st.integers(0,2)),sp=draw(st.sampled_from([0,0.01])))
def build(c,quotes,extras):
    AbstractContract.now=datetime.min
    dt=lambda s:T0+timedelta(seconds=s)
    cs=[ETF(f'E{i}') for i in range(c['nc'])]
    tr=Transmitter([dt(s) for s in c['grid']])
    tr.add_events([EventNBBO(dt(t),cs[ci],p*(1-c['sp']),p) for t,ci,p in quotes])
    for t,k,ci,v in extras:
        tr.add_events([EventNBBO(dt(t),cs[ci],v*(1-c['sp']),v)] if k=='q' else [Ping(dt(t),v)])
    return TradingEnv(BoxPortfolio(cs,-2.,2.), state=IState([RunSum(cs)]), transmitter=tr, latency=c['lat'], steps_delay=c['delay'], broker_fees=BrokerFees(0.001,Rate('R'),0.001,0.1), initial_cash=1000.)
def canon(x):
    if isinstance(x,dict): return tuple(sorted((str(k),canon(v)) for k,v in x.items()))
    if isinstance(x,np.ndarray): return (x.shape,x.tobytes())
    if isinstance(x,(float,np.floating)): return float(x).hex()
    return repr(x)
def trace(env,acts,upto=None):
    out=[canon(env.reset())]
    for k,a in enumerate(acts):
        if upto is not None and k>=upto: break
        try: o,r,d,info=env.step(np.array(a))
        except EndOfEpisodeError: out.append('EOE'); break
        reb=info.get('_rebalancing')
        out.append((canon(o),canon(r),d, None if reb is None else (repr(reb.time),canon(dict(reb.allocation)),tuple((repr(t.contract),canon(t.quantity),canon(t.acq_price)) for t in reb.trades),canon(reb.context_pre.nlv),canon(reb.context_post.nlv)), canon(env.broker.holdings_quantity), canon(env.broker.net_liquidation_value(False))))
    return out
def run(c):
    a=build(c,c['quotes'],c['extras']); ta=trace(a,c['acts'])
    # C10: replay after abandoned prefix on same env, and fresh env
    trace(a,[[0.5]*c['nc']]*2)  # abandoned other actions
    ta2=trace(a,c['acts']); assert ta2==ta,'reset replay differs'
    b=build(c,c['quotes'],c['extras']); assert trace(b,c['acts'])==ta,'fresh differs'
    # C02: perturbed future
    p=build(c,c['pq'],c['pe']); tp=trace(p,c['acts'])
    k=c['cut']  # steps landing at or before grid[cut]: reset + first `cut` steps
    assert tp[:k+1]==ta[:k+1], ('lookahead',k)
    return 'ok' if 'EOE' not in ta else 'eoe'
stats={}
@seed(int(sys.argv[1]))
@settings(max_examples=int(sys.argv[2]), deadline=None, database=None, suppress_health_check=list(HealthCheck))
@given(case())
def test(c):
    r=run(c); stats[r]=stats.get(r,0)+1
try: test()
finally: print(stats)
