import warnings; warnings.filterwarnings('ignore')
from datetime import datetime, timedelta
import numpy as np, pandas as pd, time
from tradingenv.env import TradingEnvXY
import pandas_market_calendars as pmc
rng=np.random.default_rng(0)
def probe(window, stride, start, n, calendar, foldstart, freq='D', xfreq=None, ylen=None):
    idx=pd.date_range(start, periods=n, freq=freq)
    Y=pd.DataFrame(100*np.exp(np.cumsum(rng.normal(0,0.01,(n,2)),0)), index=idx, columns=['A','B'])
    xi=idx if xfreq is None else pd.date_range(start, periods=n, freq=xfreq)
    X=pd.DataFrame(rng.normal(0,1,(len(xi),2)), index=xi, columns=['f0','f1'])
    folds={'a':[idx[0].to_pydatetime(), pd.Timestamp(foldstart).to_pydatetime()-timedelta(days=1)],'b':[pd.Timestamp(foldstart).to_pydatetime(), idx[-1].to_pydatetime()]}
    env=TradingEnvXY(X,Y,transformer=None,window=window,stride=stride,spread=0.0,folds=folds,calendar=calendar)
    hol=set(pd.to_datetime(pmc.get_calendar(calendar).holidays().holidays))
    obs=env.reset('b'); bad=0; steps=0; done=False; first=env.now()
    while True:
        now=env.now(); steps+=1
        exp=env.X.loc[:now].iloc[-window:].values
        if stride: exp=exp[::-stride][::-1]
        if not (obs.shape==env.observation_space.shape and np.array_equal(obs,exp)) or now in hol or now not in Y.index:
            bad+=1
            if bad<2: print('   MISMATCH at',now,'\n',obs,'\n',exp)
        if done: break
        obs,r_,done,info=env.step(env.action_space.sample())
    print(f'cal={calendar} window={window} stride={stride} foldstart={foldstart} first={first} steps={steps} bad={bad}')
probe(2,None,'2001-08-01',80,'NYSE','2001-09-17')
probe(3,None,'2001-08-01',80,'NYSE','2001-09-17')
probe(2,None,'2012-10-01',60,'NYSE','2012-10-31')
probe(2,None,'2019-09-01',80,'SSE','2019-10-08')
probe(3,None,'2019-09-01',80,'SSE','2019-10-08')
probe(2,None,'2020-01-01',80,'SSE','2020-02-03')
probe(4,2,'2019-12-01',80,'LSE','2019-12-27')
probe(30,None,'2019-01-01',200,'NYSE','2019-06-03')
probe(30,7,'2019-01-01',200,'NYSE','2019-06-03')
probe(3,None,'2019-01-01',120,'NYSE','2019-03-04', xfreq='7D')
probe(2,None,'2019-01-01',120,'24/7','2019-03-04')
print('--- tables without rows during closures (real-world shaped data)')
def probe2(window, calendar, start, end, foldstart, drop_from, drop_to):
    idx=pd.bdate_range(start, end); idx=idx[(idx<drop_from)|(idx>drop_to)]
    n=len(idx)
    Y=pd.DataFrame(100*np.exp(np.cumsum(rng.normal(0,0.01,(n,2)),0)), index=idx, columns=['A','B'])
    X=pd.DataFrame(rng.normal(0,1,(n,2)), index=idx, columns=['f0','f1'])
    fs=pd.Timestamp(foldstart).to_pydatetime()
    folds={'a':[idx[0].to_pydatetime(), fs-timedelta(days=1)],'b':[fs, idx[-1].to_pydatetime()]}
    env=TradingEnvXY(X,Y,transformer=None,window=window,spread=0.0,folds=folds,calendar=calendar)
    obs=env.reset('b'); now=env.now()
    exp=env.X.loc[:now].iloc[-window:].values
    print(f'cal={calendar} window={window} first={now} match={np.array_equal(obs,exp)}'); 
    if not np.array_equal(obs,exp): print(obs,'\n',exp)
probe2(2,'SSE','2019-08-01','2019-12-01','2019-10-08','2019-10-01','2019-10-07')
probe2(3,'SSE','2019-08-01','2019-12-01','2019-10-08','2019-10-01','2019-10-07')
probe2(2,'NYSE','2001-08-01','2001-11-01','2001-09-17','2001-09-11','2001-09-14')
probe2(3,'NYSE','2001-08-01','2001-11-01','2001-09-17','2001-09-11','2001-09-14')
probe2(2,'NYSE','2019-08-01','2019-12-01','2019-11-29','2019-11-28','2019-11-28')
