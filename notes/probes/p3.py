import warnings; warnings.filterwarnings('ignore')
from datetime import datetime, timedelta
import numpy as np, pandas as pd, traceback
from tradingenv.env import TradingEnv
from tradingenv.transmitter import Transmitter
from tradingenv.events import EventNBBO, IEvent
from tradingenv.contracts import ETF, ES, Cash, Rate, FutureChain, VX, AbstractContract
from tradingenv.spaces import BoxPortfolio, DiscretePortfolio
from tradingenv.state import IState
from tradingenv.broker.broker import EndOfEpisodeError
from tradingenv.broker.rebalancing import Rebalancing
from tradingenv.broker.broker import Broker
from tradingenv.exchange import Exchange

spy=ETF('SPY')
print('--- 2. history replay latent-first on later fold with latency')
ts=[datetime(2020,1,1,10,0,0)+timedelta(minutes=i) for i in range(4)]
tr=Transmitter(ts, folds={'a':[ts[0],ts[1]], 'b':[ts[2],ts[3]]})
evs=[EventNBBO(ts[0],spy,1.,1.), EventNBBO(ts[0]+timedelta(seconds=5),spy,2.,2.),  # latent of ts[1]
     EventNBBO(ts[1],Cash(),1.,1.), EventNBBO(ts[2], ETF('X'),7.,7.), EventNBBO(ts[3], ETF('X'),8.,8.)]
tr.add_events(evs)
env=TradingEnv(BoxPortfolio([spy, ETF('X')]), transmitter=tr, latency=10)
env.reset(fold='b'); print('SPY book after reset in fold b (expect 2.0):', env.exchange[spy], env.exchange[spy].history['time'])

print('--- 3. insolvency through prices')
days=[datetime(2020,1,d) for d in (1,2,3,6,7)]
for prices in ([100,100,40,40,40],[100,40,40,40,40]):
    tr=Transmitter(days); tr.add_events([EventNBBO(d,spy,float(p),float(p)) for d,p in zip(days,prices)]); tr.add_events([EventNBBO(d,Cash(),1.,1.) for d in days])
    env=TradingEnv(BoxPortfolio([spy],-5,5), transmitter=tr)
    env.reset()
    try:
        for k in range(4):
            out=env.step(np.array([2.0])); print('step',k,'reward',out[1],'done',out[2], 'nlv', env.broker.net_liquidation_value(False))
    except Exception as e: print('step',k,'raised',type(e).__name__, e, '| done flag', env._done, 'track', len(env.broker.track_record))
    try:
        env.step(np.array([2.0]))
    except Exception as e: print('next step raised',type(e).__name__, e, 'track', len(env.broker.track_record))

print('--- 4. discrete with delay')
tr=Transmitter(days); tr.add_events([EventNBBO(d,spy,100.,100.) for d in days]); tr.add_events([EventNBBO(d,Cash(),1.,1.) for d in days])
env=TradingEnv(DiscretePortfolio([spy],[[0.],[0.5],[1.]]), transmitter=tr, steps_delay=1)
env.reset()
try:
    print(env.step(1)[1:3]); print(env.broker.track_record[-1].allocation)
    print(env.step(2)[1:3]); print(env.broker.track_record[-1].allocation)
except Exception as e: traceback.print_exc()

print('--- 5. whole lot second rebalance')
ex=Exchange(); t0=days[0]
ex.process_EventNBBO(EventNBBO(t0,Cash(),1.,1.)); ex.process_EventNBBO(EventNBBO(t0,Rate('FED funds rate'),0.,0.)); ex.process_EventNBBO(EventNBBO(t0,spy,30.,30.))
b=Broker(ex, deposit=100.)
b.rebalance(Rebalancing([spy],[1.0],fractional=False,time=days[0])); print(b.holdings_quantity)
try:
    b.rebalance(Rebalancing([spy],[1.0],fractional=False,time=days[1])); print(b.holdings_quantity)
except Exception as e: print('raised', type(e).__name__, e)

print('--- 6. VX chain')
try:
    c=FutureChain(VX,'2019-01','2019-12'); print(c.contracts)
except Exception as e: print('raised', type(e).__name__, e)
