import warnings; warnings.filterwarnings('ignore')
import sys, math
from datetime import datetime, timedelta
import numpy as np
from hypothesis import given, settings, strategies as st, seed, HealthCheck
from tradingenv.env import TradingEnv
from tradingenv.transmitter import Transmitter
from tradingenv.events import EventNBBO
from tradingenv.contracts import ETF, ES, Cash, Rate, AbstractContract
from tradingenv.spaces import BoxPortfolio
from tradingenv.broker.fees import BrokerFees
from tradingenv.rewards import RewardSimpleReturn, RewardLogReturn, RewardPnL, LogReturn
import tradingenv; print(tradingenv.__file__)

class UFut(AbstractContract):
    cash_requirement=0.0
    def __init__(s, sym, mult, mr): s._s=sym; s._m=mult; s._mr=mr
    symbol=property(lambda s:s._s); multiplier=property(lambda s:s._m); margin_requirement=property(lambda s:s._mr)
class USpot(AbstractContract):
    cash_requirement=1.0; margin_requirement=0.0
    def __init__(s, sym, mult): s._s=sym; s._m=mult
    symbol=property(lambda s:s._s); multiplier=property(lambda s:s._m)
T0=datetime(2020,1,1,9,30)
price=st.floats(1.0,1000.0).map(lambda x: round(x,2))
@st.composite
def case(draw):
    n=draw(st.integers(3,7)); gaps=draw(st.lists(st.sampled_from([60,3600,86400,3*86400]),min_size=n-1,max_size=n-1))
    grid=[0]
    for g in gaps: grid.append(grid[-1]+g)
    lat=draw(st.sampled_from([0,0,5,30]))
    nc=draw(st.integers(1,3)); specs=[]
    for i in range(nc):
        kind=draw(st.sampled_from(['etf','uspot','ufut']))
        specs.append((kind, draw(st.sampled_from([1.0,2.0,10.0,0.5])), draw(st.sampled_from([0.05,0.1,0.5,1.0]))))
    quotes=[]  # (sec, ci, bid, ask)
    for t in grid:
        for ci in range(nc):
            p=draw(price); sp=draw(st.sampled_from([0,0.001,0.02]))
            quotes.append((t,ci,round(p*(1-sp),4),round(p,4)))
    for _ in range(draw(st.integers(0,6))):
        gi=draw(st.integers(0,n-2)); off=draw(st.sampled_from([1,lat,lat+1,lat-1 if lat>1 else 1, 40])); 
        if off<=0 or off>=grid[gi+1]-grid[gi]: continue
        ci=draw(st.integers(0,nc-1)); p=draw(price); sp=draw(st.sampled_from([0,0.01]))
        quotes.append((grid[gi]+off,ci,round(p*(1-sp),4),round(p,4)))
    rates=[(t, draw(st.sampled_from([0.0,0.01,0.05,-0.01]))) for t in grid if draw(st.booleans())]
    fees=(draw(st.sampled_from([0.0,0.5])), draw(st.sampled_from([0.0,0.001])), draw(st.sampled_from([0.0,0.005])))
    d=draw(st.integers(0,2))
    acts=[[draw(st.sampled_from([0.0,0.3,-0.4,0.7,1.2,-1.0,0.11*k])) for _ in range(nc)] for k in range(n-1)]
    rw=draw(st.sampled_from(['simple','log','pnl','LogReturn']))
    return dict(grid=grid,lat=lat,specs=specs,quotes=quotes,rates=rates,fees=fees,delay=d,acts=acts,rw=rw)

def mkc(i,spec):
    k,m,mr=spec
    return ETF(f'E{i}') if k=='etf' else USpot(f'S{i}',m) if k=='uspot' else UFut(f'F{i}',m,mr)
def run(c):
    AbstractContract.now=datetime.min
    dt=lambda s:T0+timedelta(seconds=s)
    cs=[mkc(i,s) for i,s in enumerate(c['specs'])]
    rate=Rate('R')
    tr=Transmitter([dt(s) for s in c['grid']])
    tr.add_events([EventNBBO(dt(t),cs[ci],b,a) for t,ci,b,a in c['quotes']])
    tr.add_events([EventNBBO(dt(t),rate,r,r) for t,r in c['rates']])
    fixed,prop,markup=c['fees']
    rw={'simple':RewardSimpleReturn(),'log':RewardLogReturn(),'pnl':RewardPnL(),'LogReturn':LogReturn(0.01,2.,0.1)}[c['rw']]
    env=TradingEnv(BoxPortfolio(cs,-2.,2.), transmitter=tr, latency=c['lat'], steps_delay=c['delay'], broker_fees=BrokerFees(markup,rate,prop,fixed), reward=rw, initial_cash=1000.)
    env.reset()
    rewards=[]; 
    for k,a in enumerate(c['acts']):
        try: o,r,done,info=env.step(np.array(a))
        except Exception as e:
            if type(e).__name__=='EndOfEpisodeError': return 'broke'
            raise
        rewards.append(r)
        if done and k<len(c['acts'])-1: return 'broke-done'
    assert done
    if env.broker.net_liquidation_value(False)<=0: return 'broke-last'
    trk=env.broker.track_record
    assert len(trk)==len(c['acts'])
    # independent ledger
    grid=c['grid']; lat=c['lat']
    allq=sorted(range(len(c['quotes'])), key=lambda i:(c['quotes'][i][0],i))
    def book_at(tmax):
        b={}
        for i in allq:
            t,ci,bid,ask=c['quotes'][i]
            if t<=tmax: b[ci]=(bid,ask)
        return b
    def rate_at(tmax):
        r=0.0
        for t,x in sorted(c['rates'], key=lambda z:z[0]):
            if t<=tmax: r=x
        return r
    M=[x.multiplier for x in cs]
    pos=[0.0]*len(cs); cost=[0.0]*len(cs); fees_paid=0.0; interest=0.0; cash=1000.
    def wealth(book): 
        w=1000.+interest-fees_paid
        for ci in range(len(cs)):
            liq=book[ci][0] if pos[ci]>=0 else book[ci][1]
            w+=M[ci]*(pos[ci]*liq-cost[ci])
        return w
    prev_time=None
    for k in range(len(c['acts'])):
        reb=trk[k]
        # C08: execution time / pricing
        texec=grid[k]+lat
        evts=[t for (t,ci,b,a) in c['quotes'] if t<=texec]+[t for t,r in c['rates'] if t<=texec]
        assert reb.time==dt(max(evts)), ('time',k,reb.time,dt(max(evts)))
        assert prev_time is None or reb.time>prev_time; prev_time=reb.time
        book=book_at(texec)
        # allocation executed
        exp_act = c['acts'][k-c['delay']] if k>=c['delay'] else [0.0]*len(cs)
        exp_alloc={cs[i]:w for i,w in enumerate(exp_act) if w!=0}
        assert dict(reb.allocation)==exp_alloc, ('alloc',k,dict(reb.allocation),exp_alloc)
        # interest (take as given) 
        interest+=reb.profit_on_idle_cash
        wpre=wealth(book)
        assert math.isclose(reb.context_pre.nlv,wpre,rel_tol=1e-9,abs_tol=1e-7), ('pre',k,reb.context_pre.nlv,wpre)
        for tr_ in reb.trades:
            ci=cs.index(tr_.contract); bid,ask=book[ci]
            acq=ask if tr_.quantity>0 else bid
            assert tr_.acq_price==acq, ('price',k,tr_,acq)
            fee=fixed+prop*abs(acq*tr_.quantity*M[ci])
            assert math.isclose(tr_.cost_of_commissions,fee,rel_tol=1e-12,abs_tol=1e-12)
            fees_paid+=fee; pos[ci]+=tr_.quantity; cost[ci]+=tr_.quantity*acq
            if abs(pos[ci])<1e-7: pos[ci]=0.0
        wpost=wealth(book)
        assert math.isclose(reb.context_post.nlv,wpost,rel_tol=1e-9,abs_tol=1e-7), ('post',k,reb.context_post.nlv,wpost)
        for ci in range(len(cs)):
            assert math.isclose(reb.context_post.nr_contracts.get(cs[ci],0.0),pos[ci],rel_tol=1e-9,abs_tol=1e-9)
        # reward
        book2=book_at(grid[k+1]); wend=wealth(book2)
        if c['rw']=='simple': er=wend/reb.context_pre.nlv-1
        elif c['rw']=='log': er=math.log(wend/reb.context_pre.nlv)
        elif c['rw']=='pnl': er=wend-reb.context_pre.nlv
        else:
            er=math.log(wend/reb.context_pre.nlv)/0.01; er=max(-2.,min(2.,er)); er=er*1.1 if er<0 else er
        assert math.isclose(rewards[k],er,rel_tol=1e-7,abs_tol=1e-9), ('reward',k,rewards[k],er)
    return 'ok'
stats={}
@seed(int(sys.argv[1]) if len(sys.argv)>1 else 1)
@settings(max_examples=int(sys.argv[2]) if len(sys.argv)>2 else 500, deadline=None, database=None, suppress_health_check=list(HealthCheck))
@given(case())
def test(c):
    r=run(c); stats[r]=stats.get(r,0)+1
try:
    test()
finally: print(stats)
