import warnings; warnings.filterwarnings('ignore')
import sys
from datetime import datetime, timedelta
import numpy as np, pandas as pd
from hypothesis import given, settings, strategies as st, seed, HealthCheck
from tradingenv.env import TradingEnv
from tradingenv.transmitter import Transmitter
from tradingenv.events import EventNBBO
from tradingenv.contracts import ES, NK, ZN, FutureChain, AbstractContract
from tradingenv.spaces import BoxPortfolio
import tradingenv; print(tradingenv.__file__)
@st.composite
def case(draw):
    cls=draw(st.sampled_from(['ES','NK','ZN'])); y=draw(st.integers(1998,2030)); m0=draw(st.sampled_from([1,4,7,10]))
    ndays=draw(st.integers(30,200)); step=draw(st.sampled_from([1,1,2,3,5]))
    ws=draw(st.lists(st.sampled_from([0.0,0.5,-0.5,1.0,-1.0,0.3]),min_size=3,max_size=3))
    sp=draw(st.sampled_from([0.0,0.001])); thr=draw(st.sampled_from([0.0,0.05,0.5])); off=draw(st.sampled_from([0,0,1]))
    return dict(cls=cls,y=y,m0=m0,ndays=ndays,step=step,ws=ws,sp=sp,thr=thr,off=off,seed=draw(st.integers(0,10**6)))
def run(c):
    AbstractContract.now=datetime.min
    K={'ES':ES,'NK':NK,'ZN':ZN}[c['cls']]
    start=datetime(c['y'],c['m0'],1)
    chain=FutureChain(K, start, start+timedelta(days=c['ndays']+400), month=c['off'])
    days=[d.to_pydatetime() for d in pd.bdate_range(start, periods=c['ndays'])][::c['step']]
    rng=np.random.default_rng(c['seed'])
    tr=Transmitter(days); evs=[]
    for i,d in enumerate(days):
        for j,f in enumerate(chain.contracts):
            if d<f.expiry:
                p=1000.+10*j+rng.normal(0,5); evs.append(EventNBBO(d,f,p*(1-c['sp']),p))
    tr.add_events(evs)
    env=TradingEnv(BoxPortfolio([chain],-2,2,margin=c['thr']), transmitter=tr, initial_cash=1e6)
    env.reset(); done=False; k=0
    ltd=[f.last_trading_date for f in chain.contracts]
    while not done:
        w=c['ws'][k%3]; k+=1
        o,r,done,info=env.step(np.array([w]))
        reb=info['_rebalancing']; t=reb.time
        live=[i for i,x in enumerate(ltd) if x>t]; lead=chain.contracts[live[0]+c['off']]
        h={f:q for f,q in env.broker.holdings_quantity.items() if q!=0 and f in chain.contracts}
        for f,q in h.items():
            assert f==lead, ('held non-lead',t,f,lead,h)
            assert t<f.expiry
        if w!=0: assert set(reb.allocation)=={lead}, (reb.allocation, lead)
    return 'ok'
stats={}
@seed(int(sys.argv[1]))
@settings(max_examples=int(sys.argv[2]), deadline=None, database=None, suppress_health_check=list(HealthCheck))
@given(case())
def test(c):
    r=run(c); stats[r]=stats.get(r,0)+1
try: test()
finally: print(stats)
