import warnings; warnings.filterwarnings('ignore')
import numpy as np, pandas as pd, tradingenv
idx=pd.to_datetime(['2020-01-01 10:00','2020-01-01 15:00','2020-01-02 09:00','2020-01-03 09:00','2020-01-03 16:00','2020-01-06 12:00'])
s=pd.Series([1.,1.1,1.05,1.2,0.9,1.0],index=idx,name='x')
for m in ['simple_returns','cagr','volatility','drawdown','max_drawdown','value_at_risk','expected_shortfall','downside_volatility','upside_volatility','martin_risk','sharpe_ratio','sortino_ratio','calmar_ratio','martin_ratio']:
    try: print(m, getattr(s,m)() if m not in() else None)
    except Exception as e: print(m,'RAISED',type(e).__name__,e)
b=pd.Series([1.,1.01,1.02,1.03,1.0,1.01],index=idx,name='b')
print('te', s.tracking_error(b)); print('sharpe rf series', s.sharpe_ratio(b))
df=pd.DataFrame({'a':s,'b':b}); print(df.cagr(), df.max_drawdown(), df.sharpe_ratio())
for bad in [s.set_axis(range(6)), s.iloc[::-1], pd.concat([s,s.iloc[:1]]), s.where(s!=1.05), s.replace(0.9,-0.9), s.replace(0.9,0.0)]:
    for m in ['cagr','volatility','drawdown','value_at_risk','sharpe_ratio','martin_risk']:
        try: getattr(bad,m)(); print('NOT REJECTED', m)
        except ValueError as e: pass
        except Exception as e: print('other', type(e).__name__, e)
print('tracking error with bad other:')
try: s.tracking_error(b.iloc[::-1]); print('NOT REJECTED')
except ValueError as e: print('rejected')
