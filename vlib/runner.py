"""Common runner for every property check.

    ./check <ID> --tier quick|thorough        generated-input search (+ corpus replay first)
    ./check <ID> --replay FILE                re-run one saved case, bypassing Hypothesis

Exit codes: 0 property held on everything explored; 1 violation (one stdout line
"VIOLATION property=<id> replay=<path>" per distinct part); 2 harness error / inconclusive.

A property module (props/cXX.py) exposes

    ID          "C01"
    PARTS       list of Part(name, strategy, run, quick=N, thorough=M)   -- Hypothesis driven
                or Part(name, enumerate=fn, run=...)                        -- exhaustive enumeration
    RULE        text: how cases are generated and what makes one non-trivial
    ASSUMPTIONS list of strings
    FINDING_PROBES (optional) {finding id: callable -> None | "what fails"}

`run(case)` is a pure function of a JSON-serialisable case. It returns a `Result`.
"""
import argparse
import collections
import hashlib
import json
import multiprocessing
import os
import random
import sys
import time
import traceback
import importlib
import warnings
from datetime import datetime

ROOT = os.path.dirname(os.path.dirname(os.path.abspath(__file__)))
# Sensitivity self-tests point VERIF_PKG_ROOT at a scratch copy of the repository (a mutant);
# registered checks never set it and always import /repo's working tree.
PKG_ROOT = os.path.realpath(os.environ.get("VERIF_PKG_ROOT", "/repo"))
REPO_PKG = os.path.join(PKG_ROOT, "tradingenv")
VERIF_ROOT = os.path.realpath(ROOT)
if PKG_ROOT != "/repo":
    sys.path.insert(0, PKG_ROOT)


class Result:
    """What one executed case contributed."""

    __slots__ = ("violations", "classes", "nontrivial", "excluded")

    def __init__(self):
        self.violations = []
        self.classes = []
        self.nontrivial = False
        self.excluded = None

    def fail(self, text):
        if len(self.violations) < 20:
            self.violations.append(str(text))

    def tag(self, *names):
        for n in names:
            if n not in self.classes:
                self.classes.append(n)


class Part:
    def __init__(self, name, strategy=None, run=None, quick=500, thorough=5000,
                 enumerate=None, budget_s=None, shards=None):
        self.name = name
        self.strategy = strategy      # callable(tier) -> hypothesis strategy
        self.run = run                # callable(case) -> Result
        self.n = {"quick": quick, "thorough": thorough}
        self.enumerate = enumerate    # callable(tier) -> list of cases (exhaustive parts)
        self.budget_s = budget_s or {"quick": 240, "thorough": 2400}
        self.shards = shards          # optional cap on the number of shards


class HarnessError(Exception):
    pass


class _Violation(Exception):
    pass


def canonical(case):
    return json.dumps(case, sort_keys=True, separators=(",", ":"), default=str)


def case_hash(case):
    return int.from_bytes(hashlib.blake2b(canonical(case).encode(), digest_size=8).digest(), "big")


def reset_globals():
    """Process-wide state the code under test reads; reset at the top of every case."""
    from tradingenv.contracts import AbstractContract
    import numpy as np
    AbstractContract.now = datetime.min
    np.random.seed(0)
    random.seed(0)


def innermost_in_repo(exc):
    """True when the exception was raised by tradingenv code, or by a third-party library that tradingenv (not the
    harness) called: walking outwards from the raising frame, the first frame that belongs to either tradingenv or
    /verif decides."""
    tb = traceback.extract_tb(exc.__traceback__)
    for fr in reversed(tb):
        fn = os.path.realpath(fr.filename)
        if fn.startswith(REPO_PKG):
            return True
        if fn.startswith(VERIF_ROOT):
            return False
    return False


def repo_frame(exc):
    tb = traceback.extract_tb(exc.__traceback__)
    for fr in reversed(tb):
        if os.path.realpath(fr.filename).startswith(REPO_PKG):
            return fr
    return tb[-1]


def execute(part, case):
    """Run one case. Exceptions whose innermost frame is in tradingenv count as a violation
    (the harness only feeds documented inputs); anything else is a harness error."""
    reset_globals()
    try:
        res = part.run(case)
    except (_Violation, HarnessError, KeyboardInterrupt):
        raise
    except Exception as exc:  # noqa
        if innermost_in_repo(exc):
            res = Result()
            tb = repo_frame(exc)
            res.fail("unexpected exception from tradingenv: %s: %s (%s:%s)" % (
                type(exc).__name__, str(exc)[:200], os.path.basename(tb.filename), tb.lineno))
            res.tag("unexpected-exception")
        else:
            raise HarnessError("harness/model exception on case %s\n%s" % (
                canonical(case)[:2000], traceback.format_exc()))
    if not isinstance(res, Result):
        raise HarnessError("run() must return a Result")
    return res


class Stats:
    def __init__(self):
        self.evaluations = 0
        self.nontrivial = set()
        self.classes = collections.Counter()
        self.excluded = collections.Counter()
        self.samples = {}
        self.skipped_budget = 0
        self.failure = None
        self.error = None

    def record(self, case, res):
        self.evaluations += 1
        for c in res.classes:
            self.classes[c] += 1
        if res.excluded:
            self.excluded[res.excluded] += 1
        if res.nontrivial:
            self.nontrivial.add(case_hash(case))
            key = "|".join(sorted(res.classes))[:200] or "nontrivial"
            if len(self.samples) < 40 and key not in self.samples:
                self.samples[key] = case

    def export(self):
        return dict(evaluations=self.evaluations, nontrivial=self.nontrivial,
                    classes=dict(self.classes), excluded=dict(self.excluded),
                    samples=self.samples, skipped_budget=self.skipped_budget,
                    failure=self.failure, error=self.error)


def _run_hypothesis(part, tier, seedval, n):
    import hypothesis
    from hypothesis import given, settings, HealthCheck, Phase
    stats = Stats()
    t0 = time.time()
    budget = part.budget_s[tier]
    state = {"failed": False, "first": None}
    recent = collections.deque(maxlen=12)      # the cases executed just before a failure, in order

    @hypothesis.seed(seedval)
    @settings(max_examples=n, deadline=None, database=None, derandomize=False,
              report_multiple_bugs=False, print_blob=False,
              phases=[Phase.generate, Phase.shrink],
              suppress_health_check=[HealthCheck.too_slow, HealthCheck.data_too_large,
                                     HealthCheck.large_base_example])
    @given(part.strategy(tier))
    def test(case):
        if not state["failed"] and time.time() - t0 > budget:
            stats.skipped_budget += 1
            return
        if not state["failed"]:
            recent.append(case)
        res = execute(part, case)
        if not state["failed"]:
            stats.record(case, res)
        if res.violations:
            if not state["failed"]:
                state["first"] = {"case": case, "violations": res.violations, "sequence": list(recent)}
            state["failed"] = True
            stats.failure = {"case": case, "violations": res.violations}
            raise _Violation(res.violations[0])

    try:
        test()
    except _Violation:
        pass
    except HarnessError as exc:
        stats.error = str(exc)
    except BaseException as exc:  # hypothesis health checks, flaky, unsatisfiable ...
        if state["first"] is not None and type(exc).__name__ in ("FlakyFailure", "Flaky", "FlakyReplay"):
            # The case violated the property when it ran after the preceding cases, but not when re-executed: the code
            # under test carries state from one case to the next (the harness itself is a pure function of the case and
            # resets the documented process-wide state). The observed violation stands; the replay file keeps the
            # sequence of cases that led to it.
            first = state["first"]
            first["violations"] = ["(order-dependent: observed after the %d preceding cases of this process, not when run alone - "
                                   "state leaks between independent objects) %s" % (len(first["sequence"]) - 1, first["violations"][0])] + first["violations"][1:]
            stats.failure = first
        else:
            stats.error = "".join(traceback.format_exception(type(exc), exc, exc.__traceback__))
    return stats


def _run_enumeration(part, tier, shard, nshards):
    stats = Stats()
    cases = part.enumerate(tier)
    for i, case in enumerate(cases):
        if i % nshards != shard:
            continue
        try:
            res = execute(part, case)
        except HarnessError as exc:
            stats.error = str(exc)
            break
        stats.record(case, res)
        if res.violations and stats.failure is None:
            stats.failure = {"case": case, "violations": res.violations}
    return stats


_MODULE = None


def _worker(task):
    part_idx, tier, seedval, n, shard, nshards = task
    warnings.filterwarnings("ignore")
    part = _MODULE.PARTS[part_idx]
    try:
        if part.enumerate is not None:
            stats = _run_enumeration(part, tier, shard, nshards)
        else:
            stats = _run_hypothesis(part, tier, seedval, n)
        out = stats.export()
    except BaseException:  # noqa
        out = Stats().export()
        out["error"] = traceback.format_exc()
    out["part"] = part.name
    return out


def load_module(pid):
    sys.path.insert(0, ROOT)
    import tradingenv
    path = os.path.realpath(tradingenv.__file__)
    if not path.startswith(REPO_PKG + "/"):
        raise HarnessError("tradingenv imported from %s, not from %s" % (path, PKG_ROOT))
    return importlib.import_module("props.%s" % pid.lower())


def load_findings(pid):
    path = os.path.join(ROOT, "known_findings.json")
    if not os.path.exists(path):
        return []
    with open(path) as f:
        data = json.load(f)
    return [x for x in data.get("findings", []) if x.get("property") == pid]


def write_replay(pid, part, failure, seed, tier):
    os.makedirs(os.path.join(ROOT, "replays"), exist_ok=True)
    body = {"property": pid, "part": part, "case": failure["case"],
            "violations": failure["violations"], "seed": seed, "tier": tier}
    if failure.get("sequence"):
        body["sequence"] = failure["sequence"]
    h = hashlib.sha1(canonical([part, failure["case"]]).encode()).hexdigest()[:12]
    rel = os.path.join("replays", "%s-%s.json" % (pid, h))
    with open(os.path.join(ROOT, rel), "w") as f:
        json.dump(body, f, indent=1, sort_keys=True, default=str)
    return rel


def replay(mod, path):
    with open(path) as f:
        body = json.load(f)
    parts = {p.name: p for p in mod.PARTS}
    part = parts[body["part"]]
    for earlier in body.get("sequence", [])[:-1]:
        execute(part, earlier)             # order-dependent failure: re-create the state left by the preceding cases
    res = execute(part, body["case"])
    for v in res.violations:
        print("  violation:", v)
    print("classes:", res.classes, "nontrivial:", res.nontrivial, "excluded:", res.excluded)
    if res.violations:
        print("VIOLATION property=%s replay=%s" % (mod.ID, path))
        return 1
    print("no violation on replay")
    return 0


def main(argv=None):
    ap = argparse.ArgumentParser()
    ap.add_argument("pid")
    ap.add_argument("--tier", default=os.environ.get("VERIF_TIER", "quick"), choices=["quick", "thorough"])
    ap.add_argument("--replay")
    ap.add_argument("--examples", type=int, help="override the per-part example count")
    ap.add_argument("--shards", type=int)
    ap.add_argument("--part", help="run only this part")
    ap.add_argument("--no-evidence", action="store_true")
    args = ap.parse_args(argv)
    warnings.filterwarnings("ignore")
    pid = args.pid.upper()
    t0 = time.time()
    seed = int(os.environ.get("VERIF_SEED", "1") or 1)
    try:
        mod = load_module(pid)
    except Exception:
        traceback.print_exc()
        print("HARNESS-ERROR property=%s import failed" % pid)
        return 2
    if args.replay:
        try:
            return replay(mod, args.replay)
        except HarnessError as exc:
            print(exc)
            return 2

    global _MODULE
    _MODULE = mod
    tier = args.tier
    violations = []       # (part, replay path, first text)
    errors = []
    known_lines = []

    # 0. known findings: re-demonstrate each listed finding with its deterministic probe.
    findings = load_findings(pid)
    probes = getattr(mod, "FINDING_PROBES", {})
    for f in findings:
        if f.get("status") != "known":
            continue
        probe = probes.get(f["id"])
        if probe is None:
            errors.append("known finding %s has no probe" % f["id"])
            continue
        reset_globals()
        what = probe()
        if what:
            known_lines.append("KNOWN-FINDING: property=%s %s" % (pid, f.get("what", what)))

    # 1. corpus replay (saved minimal cases; seconds).
    parts_by_name = {p.name: p for p in mod.PARTS}
    corpus_dir = os.path.join(ROOT, "corpus", pid)
    corpus_n = 0
    corpus_nontrivial = set()
    if os.path.isdir(corpus_dir):
        for fn in sorted(os.listdir(corpus_dir)):
            if not fn.endswith(".json"):
                continue
            rel = os.path.join("corpus", pid, fn)
            with open(os.path.join(ROOT, rel)) as f:
                body = json.load(f)
            part = parts_by_name.get(body.get("part"))
            if part is None:
                errors.append("corpus file %s names unknown part %r" % (rel, body.get("part")))
                continue
            try:
                res = execute(part, body["case"])
            except HarnessError as exc:
                errors.append(str(exc))
                continue
            corpus_n += 1
            if res.nontrivial:
                corpus_nontrivial.add(case_hash(body["case"]))
            if res.violations:
                violations.append((part.name, rel, res.violations[0]))

    # 2. generated-input search, sharded over processes.
    default_shards = 8 if tier == "quick" else 16
    nshards = args.shards or int(os.environ.get("VERIF_SHARDS", default_shards))
    tasks = []
    for idx, part in enumerate(mod.PARTS):
        if args.part and part.name != args.part:
            continue
        s = min(nshards, part.shards) if part.shards else nshards
        total = args.examples or part.n[tier]
        if part.enumerate is None:
            s = max(1, min(s, total // 20 or 1))
        per = max(1, -(-total // s))
        name_salt = int(hashlib.sha1(part.name.encode()).hexdigest()[:6], 16) % 997
        for shard in range(s):
            tasks.append((idx, tier, seed * 100003 + shard * 1009 + name_salt, per, shard, s))
    agg = {}
    if tasks:
        ctx = multiprocessing.get_context("fork")
        procs = min(nshards, len(tasks))
        if procs == 1:
            results = map(_worker, tasks)
        else:
            pool = ctx.Pool(procs)
            results = pool.imap_unordered(_worker, tasks, chunksize=1)
        for out in results:
            a = agg.setdefault(out["part"], dict(evaluations=0, nontrivial=set(), classes=collections.Counter(),
                                                 excluded=collections.Counter(), samples={}, skipped_budget=0,
                                                 failures=[], errors=[]))
            a["evaluations"] += out["evaluations"]
            a["nontrivial"] |= out["nontrivial"]
            a["classes"].update(out["classes"])
            a["excluded"].update(out["excluded"])
            for k, v in out["samples"].items():
                if len(a["samples"]) < 12:
                    a["samples"].setdefault(k, v)
            a["skipped_budget"] += out["skipped_budget"]
            if out["failure"]:
                a["failures"].append(out["failure"])
            if out["error"]:
                a["errors"].append(out["error"])
        if procs != 1:
            pool.close()
            pool.join()

    for name, a in agg.items():
        for e in a["errors"]:
            errors.append("[%s] %s" % (name, e))
        if a["failures"]:
            # one VIOLATION line per part: the smallest failing case among shards
            best = min(a["failures"], key=lambda f: len(canonical(f["case"])))
            rel = write_replay(pid, name, best, seed, tier)
            violations.append((name, rel, best["violations"][0]))

    # 3. evidence
    evaluations = corpus_n + sum(a["evaluations"] for a in agg.values())
    distinct = len(corpus_nontrivial) + sum(len(a["nontrivial"]) for a in agg.values())
    samples = []
    for name, a in agg.items():
        for k, v in list(a["samples"].items())[:6]:
            samples.append({"part": name, "classes": k, "case": v})
    exhaustive_parts = [p.name for p in mod.PARTS if p.enumerate is not None and p.name in agg]
    coverage = {
        "evaluations": evaluations,
        "distinct_nontrivial": distinct,
        "rule": mod.RULE,
        "samples": samples[:24],
        "corpus_cases_replayed": corpus_n,
        "parts": {name: {"evaluations": a["evaluations"],
                         "distinct_nontrivial": len(a["nontrivial"]),
                         "classes": dict(sorted(a["classes"].items())),
                         "excluded": dict(a["excluded"]),
                         "skipped_time_budget": a["skipped_budget"]} for name, a in agg.items()},
        "exhaustive": bool(exhaustive_parts) and len(exhaustive_parts) == len(agg),
        "exhaustive_parts": exhaustive_parts,
        "shards": nshards,
        "known_findings_reported": len(known_lines),
    }
    evidence = {
        "property_id": pid, "tier": tier, "seed": seed, "level": "exploration",
        "coverage": coverage, "assumptions": list(getattr(mod, "ASSUMPTIONS", [])),
        "wall_s": round(time.time() - t0, 2), "violations": len(violations),
    }
    if not args.no_evidence and not args.part:
        os.makedirs(os.path.join(ROOT, "evidence"), exist_ok=True)
        tmp = os.path.join(ROOT, "evidence", "%s.json.tmp" % pid)
        with open(tmp, "w") as f:
            json.dump(evidence, f, indent=1, default=str)
        os.replace(tmp, os.path.join(ROOT, "evidence", "%s.json" % pid))

    for line in known_lines:
        print(line)
    for name, a in agg.items():
        print("[%s/%s] part=%s evaluations=%d nontrivial=%d excluded=%s budget_skipped=%d" % (
            pid, tier, name, a["evaluations"], len(a["nontrivial"]), dict(a["excluded"]), a["skipped_budget"]))
    print("[%s/%s] total evaluations=%d distinct_nontrivial=%d wall=%.1fs" % (
        pid, tier, evaluations, distinct, time.time() - t0))
    if violations:
        for name, rel, text in violations:
            print("  part=%s: %s" % (name, text))
            print("VIOLATION property=%s replay=%s" % (pid, rel))
        return 1
    if errors:
        for e in errors:
            print("HARNESS-ERROR property=%s" % pid)
            print(e)
        return 2
    return 0


if __name__ == "__main__":
    sys.exit(main())
