"""xylab: generated inputs for the tabular environment (TradingEnvXY).

A *case* is a JSON-serialisable dict that fully determines the feature table X, the price table Y,
the optional rate series and the TradingEnvXY configuration:

    cal            'NYSE' | 'LSE' | 'SSE' | '24/7'
    shape          'daily' (rows on every calendar day, closed days included) | 'exchange' (no rows on
                   Saturdays/Sundays/holidays of `cal`, possibly further rows removed)   [informative]
    y0             'YYYY-MM-DD' origin; every date below is an offset in days from it
    y_days         increasing offsets of the rows of Y: integers for daily tables, multiples of 1/2 or 1/4
                   for intraday tables (12-hourly / 6-hourly rows)
    x_days         increasing offsets of the rows of X (may start before 0 / end elsewhere / be sparser / be
                   intraday while Y is daily and vice versa)
    rate_days      None (no rate series given) or increasing integer offsets of the rate series (>= 2 rows)
    ny, nx         number of asset columns ('A','B','C') and feature columns ('f0'..'f3')
    seed           integer selecting the values (counter-based splitmix64 stream, no RNG state)
    y_p0           first price of each asset; y_vol the bound of one multiplicative move
    x_scale, x_offset, x_jump   per feature column: scale, offset, and [row, factor] regime change
    y_nan, x_nan   lists of [row, column] cells set to NaN; x_late = [[column, first valid row]] (leading NaNs)
    window, stride, transformer (None|'z-score'|'yeo-johnson'), transformer_end (None|integer offset),
    clip, spread, start, end (None|integer offset), bound_fmt ('str'|'ts'),
    folds          None or {'training-set': [d0, d1], 'test-set': [d2, d3]} (offsets), fold = the one reset into,
    fold2          None or the fold of a second episode run on the same environment,
    episode_length None|int, steps_delay 0|1, max_long, max_short, margin,
    weights        list of target-weight vectors (cycled through the steps; applied only to quoted assets)
    x_mode, intraday   [informative]

`tables_from_case(case)` -> {'X': DataFrame, 'Y': DataFrame, 'rate': Series|None}
`build_env(case, tables=None)` -> a fresh TradingEnvXY built from (copies of) the tables
`cases(tier)` -> Hypothesis strategy of cases.  Preconditions of TradingEnvXY are met by construction:
enough non-holiday price rows for 2*window warm-up rows plus the episode, folds with enough steps,
rate without NaN and with >= 2 rows, X with 5 complete rows and Y with 3 returns of one asset inside
the transformer's fit range.

Nothing here imports the internals of tradingenv: only the public constructor is called.
"""
import math
from datetime import date, timedelta

import numpy as np
import pandas as pd
from hypothesis import strategies as st

CALENDARS = ["NYSE", "LSE", "SSE", "24/7"]
Y_COLS = ["A", "B", "C"]
X_COLS = ["f0", "f1", "f2", "f3"]
X_COLS_NAMED = ["vix", "momentum", "carry", "basis"]       # labels that are NOT in sorted order


def x_columns(case):
    return (X_COLS_NAMED if case.get("x_named") else X_COLS)[:case["nx"]]

RATE_NAME = "r"
OBS_BOUND = 5.0

_HOLIDAYS = {}


def _memoise_calendars():
    """Building a pandas_market_calendars calendar and its holiday list costs ~0.3 s, which would be
    two thirds of the cost of a case (TradingEnvXY builds one per construction). The factory is
    memoised per process: same calendars, same holidays, only the construction time is saved.
    VERIF_XYLAB_NOCACHE=1 switches this off."""
    import os
    import functools
    import pandas_market_calendars as pmc
    if os.environ.get("VERIF_XYLAB_NOCACHE") or getattr(pmc.get_calendar, "_xylab_memo", False):
        return
    original = pmc.get_calendar

    @functools.lru_cache(maxsize=None)
    def cached(name):
        return original(name)

    def get_calendar(name, *args, **kwargs):
        if args or kwargs or not isinstance(name, str):
            return original(name, *args, **kwargs)
        return cached(name)

    get_calendar._xylab_memo = True
    pmc.get_calendar = get_calendar


def holidays(cal):
    """frozenset of datetime.date: the holidays published by pandas_market_calendars for `cal`."""
    if cal not in _HOLIDAYS:
        import pandas_market_calendars as pmc
        hs = pmc.get_calendar(cal).holidays().holidays
        _HOLIDAYS[cal] = frozenset(pd.Timestamp(h).date() for h in hs)
    return _HOLIDAYS[cal]


# ------------------------------------------------------------------------------ values from a seed

_M = np.uint64(0xFFFFFFFFFFFFFFFF)


def _mix(x):
    x = (x + np.uint64(0x9E3779B97F4A7C15)) & _M
    z = x
    z = ((z ^ (z >> np.uint64(30))) * np.uint64(0xBF58476D1CE4E5B9)) & _M
    z = ((z ^ (z >> np.uint64(27))) * np.uint64(0x94D049BB133111EB)) & _M
    return z ^ (z >> np.uint64(31))


def uniforms(seed, stream, n):
    """n reproducible numbers in [0, 1): a pure function of (seed, stream, position)."""
    with np.errstate(over="ignore"):
        base = _mix(np.array([(int(seed) * 1000003 + int(stream) * 7919 + 12345) % (1 << 63)], dtype=np.uint64))
        x = _mix(_mix(base + np.arange(n, dtype=np.uint64)))
    return (x >> np.uint64(11)).astype(np.float64) * (2.0 ** -53)


def bell(seed, stream, n):
    """n numbers in (-3.47, 3.47), mean 0, variance 1 (sum of four uniforms)."""
    u = uniforms(seed, stream, 4 * n).reshape(4, n)
    return (u.sum(axis=0) - 2.0) * np.sqrt(3.0)


# ------------------------------------------------------------------------------ case -> tables -> env

def day(case, offset):
    """Timestamp of an offset (in days, possibly a multiple of 1/4) from the origin of the case."""
    return pd.Timestamp(case["y0"]) + pd.Timedelta(hours=round(offset * 24))


def index_of(case, days):
    t0 = pd.Timestamp(case["y0"])
    return pd.DatetimeIndex([t0 + pd.Timedelta(hours=round(d * 24)) for d in days])


def tables_from_case(case):
    seed = case["seed"]
    ny, nx = case["ny"], case["nx"]
    # prices: bounded multiplicative moves, always positive
    n = len(case["y_days"])
    y = np.empty((n, ny))
    for j in range(ny):
        moves = 1.0 + case["y_vol"] * (2.0 * uniforms(seed, 10 + j, n) - 1.0)
        moves[0] = 1.0
        y[:, j] = case["y_p0"][j] * np.cumprod(moves)
    for r0, ln, c in case.get("y_flat", []):
        y[r0:r0 + ln, c] = y[r0, c]            # a run of rows repeating the same price (halted / forward-filled series)
    for r, c in case["y_nan"]:
        y[r, c] = np.nan
    Y = pd.DataFrame(y, index=index_of(case, case["y_days"]), columns=Y_COLS[:ny])
    if case.get("y_dtype") == "float32":
        Y = Y.astype("float32")                 # the same table as stored by many data vendors / parquet files
    # features
    m = len(case["x_days"])
    x = np.empty((m, nx))
    for j in range(nx):
        col = bell(seed, 20 + j, m) * case["x_scale"][j]
        r0, factor = case["x_jump"][j]
        col[r0:] *= factor
        x[:, j] = col + case["x_offset"][j]
    for r, c in case["x_nan"]:
        x[r, c] = np.nan
    for c, r0 in case.get("x_late", []):
        x[:r0, c] = np.nan
    X = pd.DataFrame(x, index=index_of(case, case["x_days"]), columns=x_columns(case))
    rate = None
    if case["rate_days"] is not None:
        k = len(case["rate_days"])
        vals = -0.02 + 0.22 * uniforms(seed, 40, k)
        if case.get("rate_step"):
            vals = vals[(np.arange(k) // case["rate_step"]) * case["rate_step"]]      # piecewise-constant (policy) rate
        rate = pd.Series(vals, index=index_of(case, case["rate_days"]), name=RATE_NAME)
    return {"X": X, "Y": Y, "rate": rate}


def _bound(case, key):
    v = case.get(key)
    if v is None:
        return None
    t = day(case, v)
    return t.strftime("%Y-%m-%d") if case.get("bound_fmt") == "str" else t


def fold_dates(case):
    """The folds argument as tradingenv documents it: name -> [start datetime, end datetime]."""
    if case.get("folds") is None:
        return None
    return {k: [day(case, a).to_pydatetime(), day(case, b).to_pydatetime()] for k, (a, b) in case["folds"].items()}


def build_env(case, tables=None):
    """A fresh TradingEnvXY. `tables` (same structure as tables_from_case) replaces the generated tables."""
    from tradingenv.env import TradingEnvXY
    _memoise_calendars()
    t = tables if tables is not None else tables_from_case(case)
    rate = t["rate"]
    transformer = case["transformer"]
    if isinstance(transformer, list):
        # ["fitted", k]: the caller hands over a scaler already fitted on the first k feature rows (documented: a
        # transformer that is already fit is used as it is)
        from sklearn.preprocessing import StandardScaler
        transformer = StandardScaler().fit(t["X"].iloc[:transformer[1]])
    kwargs = dict(
        X=t["X"].copy(), Y=t["Y"].copy(),
        start=_bound(case, "start"), end=_bound(case, "end"),
        transformer=transformer,
        transformer_end=None if case.get("transformer_end") is None else day(case, case["transformer_end"]),
        rate=None if rate is None else rate.copy(),
        spread=case["spread"], window=case["window"], stride=case["stride"], clip=case["clip"],
        calendar=case["cal"], folds=fold_dates(case), episode_length=case.get("episode_length"),
        steps_delay=case["steps_delay"], max_long=case["max_long"], max_short=case["max_short"],
        margin=case["margin"], cash=100.0, latency=0,
    )
    # optional reward / cost parameters (absent from a case = the constructor's defaults)
    for key in ("reward_clipping", "risk_aversion", "fee", "fixed", "markup"):
        if key in case:
            kwargs[key] = case[key]
    return TradingEnvXY(**kwargs)


# ------------------------------------------------------------------------------ generator

# (month, day) around which closures cluster, per calendar; and dated one-off closures.
_ANCHORS = {
    "NYSE": [(12, 27), (11, 26), (7, 4), (4, 5), (1, 18), (9, 4)],
    "LSE": [(12, 27), (4, 8), (5, 5), (8, 28), (1, 1)],
    "SSE": [(10, 4), (2, 3), (5, 2), (1, 28), (4, 5), (6, 10)],
    "24/7": [(12, 27), (6, 15)],
}
_SPECIAL = {
    "NYSE": ["2001-09-14", "2001-09-17", "2012-10-30", "2001-09-12", "1994-04-27", "2018-12-05", "2007-01-02"],
    "LSE": ["2011-04-29", "2012-06-05", "2022-09-19", "1999-12-31"],
    "SSE": ["2019-10-07", "2015-09-04", "2020-01-31", "2010-02-19", "2021-10-07"],
    "24/7": [],
}
_TRANSFORMERS = [None, "z-score", None, "z-score", "yeo-johnson", None, "z-score", None, "z-score", "z-score"]


def _expand(days, k):
    return list(days) if k == 1 else [d + i / k for d in days for i in range(k)]


@st.composite
def cases(draw, tier="quick", bias=None):
    """bias="gappy-intraday": exchange-shaped tables with several rows per day and a block of rows removed (row spans
    that are long and not a whole number of days) - a rare conjunction under the default draws."""
    cal = draw(st.sampled_from(["NYSE", "NYSE", "SSE", "SSE", "LSE", "24/7"]))
    hol = holidays(cal)
    shape = draw(st.sampled_from(["daily", "exchange", "exchange"])) if bias is None else "exchange"
    # rows per day: daily tables (most cases) or 12-/6-hourly rows in Y, in X or in both
    sub = draw(st.sampled_from([1, 1, 1, 2, 1, 1, 4, 1])) if bias is None else draw(st.sampled_from([2, 4]))
    intraday = draw(st.sampled_from(["both", "y", "x"])) if sub > 1 else None
    ky = sub if intraday in ("both", "y") else 1
    kx = sub if intraday in ("both", "x") else 1
    if shape == "daily":
        span = draw(st.integers(max(12, 30 // ky), 150 // ky))
    else:
        span = draw(st.integers(max(20, 48 // ky), 210 // ky))
    # origin: put a closure somewhere inside the span (three cases out of four)
    how = draw(st.sampled_from(["anchor", "anchor", "special", "free"]))
    if how == "special" and _SPECIAL[cal]:
        anchor = date.fromisoformat(draw(st.sampled_from(_SPECIAL[cal])))
    elif how == "free":
        anchor = date(draw(st.integers(1996, 2023)), draw(st.integers(1, 12)), draw(st.integers(1, 28)))
    else:
        mth, dd = draw(st.sampled_from(_ANCHORS[cal]))
        anchor = date(draw(st.integers(1996, 2023)), mth, dd)
    base = anchor - timedelta(days=draw(st.integers(6, span - 4)))

    def on(d):      # calendar date of an offset (fractions of a day are dropped)
        return base + timedelta(days=math.floor(d))

    def trading(d):
        dt = on(d)
        if cal == "24/7":
            return True
        return dt.weekday() < 5 and dt not in hol

    # ---- Y rows (dates first, then the rows of each date)
    if shape == "daily":
        yd = list(range(span))
    else:
        yd = [d for d in range(span) if trading(d)]
        extra = draw(st.sampled_from(["none", "none", "few", "block", "both"])) if bias is None else draw(st.sampled_from(["block", "both"]))
        if extra in ("few", "both") and len(yd) >= 16:
            drop = set(draw(st.lists(st.integers(1, len(yd) - 2), max_size=max(1, len(yd) // 12), unique=True)))
            yd = [d for i, d in enumerate(yd) if i not in drop]
        if extra in ("block", "both") and len(yd) >= 24:
            p = draw(st.integers(4, len(yd) - 6))
            ln = draw(st.integers(2, 9))
            yd = yd[:p] + yd[p + ln:]
    y_days = _expand(yd, ky)
    ny = draw(st.integers(1, 3))
    n = len(y_days)

    # ---- X rows
    x_mode = draw(st.sampled_from(["same", "same", "range", "range", "sparse", "sparse-range", "calendar"]))
    if x_mode == "same":
        xd = list(yd)
    elif x_mode == "calendar":
        xd = list(range(span))          # a feature row on every calendar day, whatever the shape of the price table
    else:
        if "range" in x_mode:
            xs = draw(st.sampled_from([0, -1, -7, 3, 11])) if draw(st.booleans()) else draw(st.integers(-60, 20))
            xe = span + draw(st.integers(-20, 10))
        else:
            xs, xe = 0, span
        if shape == "daily":
            pool = list(range(xs, xe))
        else:
            # same shape rule over its own range; dates removed from Y inside the span are removed here too
            ys = set(yd)
            pool = [d for d in range(xs, xe) if (d in ys if 0 <= d < span else trading(d))]
        if "sparse" in x_mode:
            if draw(st.booleans()):
                k = draw(st.integers(2, 7))
                ph = draw(st.integers(0, k - 1))
                pool2 = [d for i, d in enumerate(pool) if i % k == ph]
            else:
                keep = uniforms(draw(st.integers(0, 10 ** 6)), 1, len(pool)) < draw(st.sampled_from([0.4, 0.7, 0.9]))
                pool2 = [d for d, kp in zip(pool, keep) if kp]
            if len(pool2) >= 10:
                pool = pool2
        xd = pool
        if len(xd) < 10:
            xd = list(yd)
            x_mode = "same"
    x_days = _expand(xd, kx)
    nx = draw(st.integers(1, 4))
    m = len(x_days)

    # ---- NaN cells
    y_nan = draw(st.lists(st.tuples(st.integers(0, n - 1), st.integers(0, ny - 1)), max_size=max(2, n * ny // 10), unique=True))
    if draw(st.booleans()):
        r0 = draw(st.integers(0, n - 2))
        ln = draw(st.integers(2, 5))
        c = draw(st.integers(0, ny - 1))
        y_nan = list(dict.fromkeys(list(y_nan) + [(r, c) for r in range(r0, min(n, r0 + ln))]))
    y_nan = sorted([list(t) for t in y_nan])
    x_nan = draw(st.lists(st.tuples(st.integers(0, m - 1), st.integers(0, nx - 1)), max_size=max(2, m * nx // 8), unique=True))
    if draw(st.booleans()):
        r0 = draw(st.integers(0, m - 2))
        ln = draw(st.integers(2, 6))
        c = draw(st.integers(0, nx - 1))
        x_nan = list(dict.fromkeys(list(x_nan) + [(r, c) for r in range(r0, min(m, r0 + ln))]))
    x_nan = sorted([list(t) for t in x_nan if not 3 <= t[0] <= 7])      # rows 3..7 of X stay complete

    # ---- start / end bounds (whole dates; need not be row dates)
    start = end = None
    if n >= 50 and draw(st.integers(0, 3)) == 0:
        start = math.floor(y_days[draw(st.integers(1, n // 4))]) - draw(st.integers(0, 2))
    if n >= 50 and draw(st.integers(0, 3)) == 0:
        end = math.floor(y_days[n - 1 - draw(st.integers(1, n // 4))]) + draw(st.integers(0, 2))

    # ---- rows on which a step is possible (a model used only to keep the configuration valid; it may
    #      under-estimate: TradingEnvXY serves at least these rows)
    nan_cells = set(map(tuple, y_nan))
    lo = y_days[0] if start is None else start
    hi = y_days[-1] if end is None else end
    dead = [all((i, c) in nan_cells for c in range(ny)) for i in range(n)]
    if all(dead[i] for i in range(n) if lo <= y_days[i] <= hi):
        y_nan, nan_cells, dead = [], set(), [False] * n
    all_nan = sum(dead)
    # rows after the last row with a price (within the bounds) are never served
    hi = max(d for d, dd in zip(y_days, dead) if lo <= d <= hi and not dd)
    elig = [d for d in y_days if lo <= d <= hi and on(d) not in hol]
    wmax = min(30, (len(elig) - all_nan - 6) // 2)
    if wmax < 1:            # NaN rows piled up: fall back to complete prices
        y_nan, nan_cells, all_nan = [], set(), 0
        wmax = max(1, min(30, (len(elig) - 6) // 2))
    window = draw(st.one_of(st.integers(1, 6), st.integers(1, 6), st.integers(2, 4), st.integers(7, 30)))
    window = max(1, min(window, wmax))
    stride = draw(st.one_of(st.none(), st.integers(1, window), st.integers(1, window)))
    safe = 2 * window + all_nan + 1        # elig[safe] is certainly a step
    episode_length = draw(st.one_of(st.none(), st.none(), st.integers(1, 8)))
    need = 2 if episode_length is None else episode_length + 1
    if len(elig) - safe < need + 1:
        episode_length = None
        need = 2

    transformer = draw(st.sampled_from(_TRANSFORMERS))
    # The fit range X.loc[:transformer_end] must contain rows 3..7 of X, and Y.loc[:transformer_end] at least
    # two log-returns of one asset (the reward scale is their standard deviation; with fewer the
    # constructor fails with AttributeError on the pinned tree -- reported, outside this property).
    te_min = None
    for c in range(ny):
        rets = [y_days[i] for i in range(1, n) if (i, c) not in nan_cells and (i - 1, c) not in nan_cells]
        if len(rets) >= 3 and (te_min is None or rets[2] < te_min):
            te_min = rets[2]
    if te_min is None or te_min > hi:
        y_nan, nan_cells = [], set()
        te_min = y_days[3]
    te_min = math.ceil(max(te_min, x_days[min(7, len(x_days) - 1)]))     # (short feature tables: the last row)
    transformer_end = None
    if draw(st.booleans()):
        transformer_end = draw(st.integers(te_min, max(te_min, math.floor(y_days[-1]))))
    elif te_min > hi:           # default = `end`
        transformer_end = te_min
    clip = draw(st.sampled_from([5.0, 5.0, 2.5, 1.0, 0.5, 0.125, 3.3]))
    spread = draw(st.sampled_from([0.0, 0.0002, 0.01, 0.01]))

    # ---- folds
    folds = None
    fold = "training-set"
    fold2 = None
    union = sorted(set(x_days) | set(y_days))
    prev_row = {d: p for p, d in zip(union, union[1:])}
    if draw(st.integers(0, 2)) > 0:
        cand = elig[safe: len(elig) - need + 1]
        if cand:
            gap3 = [d for d in cand if d - prev_row.get(d, d) >= 3]
            gapw = [d for d in cand if d - prev_row.get(d, d) >= 5]
            pick = draw(st.sampled_from(["gapw", "gap3", "gap3", "any"]))
            if pick == "gapw" and gapw:
                b = draw(st.sampled_from(gapw))
            elif pick != "any" and gap3:
                b = draw(st.sampled_from(gap3))
            else:
                b = draw(st.sampled_from(cand))
            bi = elig.index(b)
            # end of the test fold: far end, or just enough steps
            if draw(st.booleans()):
                tend = math.floor(y_days[-1]) + draw(st.integers(1, 5))
            else:
                tend = elig[min(len(elig) - 1, bi + need - 1 + draw(st.integers(0, 10)))]
            folds = {"training-set": [math.floor(min(y_days[0], b - 1)) - draw(st.integers(0, 3)), b - 1], "test-set": [b, tend]}
            train_ok = sum(1 for d in elig[safe:bi] if d <= b - 1) >= need
            fold = draw(st.sampled_from(["test-set", "test-set", "test-set", "training-set"])) if train_ok else "test-set"
            if draw(st.integers(0, 2)) == 0:
                fold2 = draw(st.sampled_from(["test-set", "training-set"])) if train_ok else "test-set"
    elif draw(st.integers(0, 3)) == 0:
        fold2 = "training-set"

    # ---- rate (daily or sparser, whole dates)
    rate_days = None
    rmode = draw(st.sampled_from(["none", "same", "same", "sparse", "shifted"]))
    r_lo, r_hi = math.floor(y_days[0]), math.floor(y_days[-1])
    if rmode == "same":
        rate_days = list(yd)
    elif rmode == "sparse":
        k = draw(st.integers(2, 9))
        rate_days = [d for d in range(r_lo - draw(st.integers(0, 12)), r_hi + 1) if d % k == 0]
    elif rmode == "shifted":
        rate_days = list(range(r_lo + draw(st.integers(-10, 25)), r_hi - draw(st.integers(0, 10))))
    if rate_days is not None and len(rate_days) < 2:
        rate_days = None

    max_long = draw(st.sampled_from([1.0, 1.0, 0.5, 2.0]))
    max_short = draw(st.sampled_from([-1.0, -1.0, 0.0, -0.5]))
    wl = max(max_short, -0.25)
    wh = min(max_long, 0.25)
    weights = draw(st.lists(
        st.lists(st.integers(int(wl * 16), int(wh * 16)).map(lambda q: q / 16.0), min_size=ny, max_size=ny),
        min_size=1, max_size=5))

    y_flat = []
    if draw(st.integers(0, 2)) == 0:
        r0 = draw(st.integers(0, max(0, n - 3)))
        y_flat = [[r0, draw(st.integers(3, 14)), draw(st.integers(0, ny - 1))]]
        if fold == "test-set" and folds and draw(st.booleans()):
            # the run straddles the start of the fold the episode is played on
            b0 = folds["test-set"][0]
            at = next((i for i, d_ in enumerate(y_days) if d_ >= b0), None)
            if at is not None:
                y_flat[0][0] = max(0, at - draw(st.integers(1, 6)))
    rate_step = draw(st.sampled_from([None, None, 3, 10, 1000]))
    y_dtype = draw(st.sampled_from([None, None, None, None, "float32"]))
    extra_keys = {}
    if y_flat:
        extra_keys["y_flat"] = y_flat
    if rate_step and rate_days is not None:
        extra_keys["rate_step"] = rate_step
    if y_dtype:
        extra_keys["y_dtype"] = y_dtype
    return {
        **extra_keys,
        "cal": cal, "shape": shape, "intraday": intraday, "y0": base.isoformat(),
        "y_days": y_days, "x_days": x_days, "x_mode": x_mode,
        "rate_days": rate_days, "ny": ny, "nx": nx,
        "seed": draw(st.integers(0, 2 ** 31 - 1)),
        "y_p0": [draw(st.sampled_from([1.5, 37.25, 100.0, 2500.0])) for _ in range(ny)],
        "y_vol": draw(st.sampled_from([0.005, 0.02, 0.05])),
        "x_scale": [draw(st.sampled_from([0.01, 1.0, 1.0, 3.0, 10.0])) for _ in range(nx)],
        "x_offset": [draw(st.sampled_from([0.0, 0.0, 0.5, -2.0, 50.0])) for _ in range(nx)],
        "x_jump": [[draw(st.integers(8, max(8, m - 1))), draw(st.sampled_from([1.0, 1.0, 25.0, 0.04]))] for _ in range(nx)],
        "y_nan": y_nan, "x_nan": x_nan,
        "x_named": draw(st.sampled_from([False, True])),
        # a feature column that only starts late (leading NaNs up to a row possibly far into the episode); only without a
        # transformer to fit (an all-NaN fit sample is outside what the power transform accepts)
        "x_late": ([[draw(st.integers(0, nx - 1)), draw(st.integers(2, max(2, m - 2)))]]
                   if (transformer is None and nx >= 2 and draw(st.sampled_from([True, False]))) else []),
        "window": window, "stride": stride, "transformer": transformer, "transformer_end": transformer_end,
        "clip": clip, "spread": spread, "start": start, "end": end,
        "bound_fmt": draw(st.sampled_from(["str", "ts"])),
        "folds": folds, "fold": fold, "fold2": fold2, "episode_length": episode_length,
        "steps_delay": draw(st.sampled_from([0, 1])),
        "max_long": max_long, "max_short": max_short, "margin": draw(st.sampled_from([0.02, 0.0, 0.1])),
        "weights": weights,
    }
