"""Independent replay of a bar-shaped TradingEnv episode (C07, C08, C17).

The oracle reads the *input stream* of the case (never env.exchange): for execution j the book is the last
quote per contract among the events the timing model says were delivered before it. A `brokerlab.Ledger`
replays the recorded trades and recorded interest; rewards are recomputed from ledger NLVs.
"""
import math

import numpy as np

from vlib import envlab as E
from vlib import brokerlab as B
from tradingenv.broker.broker import EndOfEpisodeError

SECONDS_IN_YEAR = 365 * 24 * 3600


def _drop_cash(b, vec):
    vec = list(vec)
    pos = b.case.get("cash_pos")
    if pos is not None:
        del vec[pos % (b.n + 1)]       # any entry for the cash contract is ignored
    return vec


def expected_allocation(b, action):
    """Allocation denoted by an action: {contract index: value} over non-zero, non-cash entries."""
    sp = b.case.get("space", ["box"])
    if sp[0] == "discrete":
        vec = sp[1][int(action)]
    else:
        vec = E.action_values(action, b.case.get("action_type", "array64"))
    return {i: float(v) for i, v in enumerate(_drop_cash(b, vec)) if float(v) != 0.0}


def null_allocation(b):
    sp = b.case.get("space", ["box"])
    if sp[0] == "discrete":
        return {i: float(v) for i, v in enumerate(_drop_cash(b, sp[1][0])) if float(v) != 0.0}
    return {}


def as_weights(b):
    sp = b.case.get("space", ["box"])
    if sp[0] == "discrete":
        return sp[2] if len(sp) > 2 else True
    return sp[3] if len(sp) > 3 else True


class Flat:
    """Concrete contracts of an environment: a FutureChain contributes each of its listed futures."""

    def __init__(self, b):
        self.contracts, self.mult, self.margin, self.margined, self.owner = [], [], [], [], []
        self.first = {}
        for ci, c in enumerate(b.contracts):
            self.first[ci] = len(self.contracts)
            if b.case["contracts"][ci]["kind"] == "chain":
                for fut in c.contracts:
                    self.contracts.append(fut)
                    self.mult.append(float(fut.multiplier))
                    self.margin.append(float(fut.margin_requirement))
                    self.margined.append(True)
                    self.owner.append(ci)
            else:
                self.contracts.append(c)
                self.mult.append(b.mult[ci])
                self.margin.append(b.margin[ci])
                self.margined.append(b.margined[ci])
                self.owner.append(ci)
        self.n = len(self.contracts)
        self.by_symbol = {c.symbol: i for i, c in enumerate(self.contracts)}

    def index(self, contract):
        return self.by_symbol[contract.symbol]

    def book(self, events):
        """Last quote per concrete contract in delivery order; rate; time of the last event."""
        bid = [float("nan")] * self.n
        ask = [float("nan")] * self.n
        rate = 0.0
        last_t = None
        for e in events:
            if e[2] == "Q":
                ci, b_, a_ = e[3]
                bid[self.first[ci]], ask[self.first[ci]] = b_, a_
            elif e[2] == "QU":
                ci, ui, b_, a_ = e[3]
                bid[self.first[ci] + ui], ask[self.first[ci] + ui] = b_, a_
            elif e[2] == "RATE":
                rate = e[3]
            last_t = e[0]
        return bid, ask, rate, last_t


def replay(case, res, checks, episodes=1):
    """Runs `episodes` consecutive episodes on ONE environment (the later ones with the action list reversed) and the
    oracle on each. `checks` ⊆ {"ledger", "reward", "fifo", "pricing", "frames", "target"}.
    Returns a dict of statistics for the non-trivial rule (accumulated over the episodes)."""
    b = E.build(case)
    total = None
    for ep in range(episodes):
        actions = case["actions"] if ep % 2 == 0 else case["actions"][::-1]
        stats = _replay_episode(case, b, res, checks, actions)
        if total is None:
            total = stats
        else:
            for k, v in stats.items():
                if isinstance(v, bool):
                    total[k] = total[k] or v
                elif isinstance(v, (int, float)) and k not in ("delay", "final_nlv"):
                    total[k] += v
        if res.violations:
            if ep > 0:
                res.violations[0] = "episode %d on the same environment: %s" % (ep + 1, res.violations[0])
            break
    total["episodes"] = episodes
    return total


def _replay_episode(case, b, res, checks, actions):
    tm = E.Timing(b)
    env = b.env
    F = Flat(b)
    n = F.n
    fixed, prop = case.get("fees", [0.0, 0.0])
    led = B.Ledger(n, F.mult, case.get("deposit", 1000.0), fixed, prop)
    stats = {"executions": 0, "nonzero_trade_execs": 0, "quote_changed_between": 0, "ruin": False,
             "latent_quote_changed_price": 0, "boundary_quote": 0, "interest_nonzero": 0, "delay": case.get("delay", 0),
             "steps": 0, "cost_ruin": False}
    delay = case.get("delay", 0)
    env.reset(E.fold_name(case))
    if len(tm.steps) < 2:
        return stats
    rewards = []
    pre_nlvs = []
    executed = []           # allocations in execution order
    prev_book = None
    last_mark_cash = None   # cash after the last valuation (for the interest cross-check)
    last_t = None
    last_reb_us = None
    rate_changes = len(case.get("rates", []))
    ntr = 0
    for j in range(1, len(tm.steps)):
        if j - 1 >= len(actions):
            break
        action = actions[j - 1]
        try:
            out = env.step(E.to_action(action, case.get("action_type", "array64")))
        except EndOfEpisodeError as exc:
            res.fail("step %d raised EndOfEpisodeError: %s" % (j, str(exc)[:100]))
            return stats
        obs, reward, done, info = out
        stats["steps"] += 1
        before = tm.delivered_before_execution(j)
        bid, ask, rate, t_exec = F.book(before)
        for i in range(n):
            led.quote(i, bid[i], ask[i])
        tr = env.broker.track_record
        if not info:
            # The rebalance signalled the end of the episode. Either the decision arrived with NLV <= 0 and nothing was
            # executed (C09's business), or it WAS executed and its own costs (fees, spread) exhausted the account:
            # an executed decision, which the track record must account for like any other.
            hq = env.broker.holdings_quantity
            moved = [i for i in range(n) if not B.close(float(hq.get(F.contracts[i], 0.0)), led.q[i], rel=1e-12, abs_=1e-12)]
            if "ledger" in checks and (moved or len(tr) != ntr):
                stats["cost_ruin"] = True
                if len(tr) != ntr + 1:
                    res.fail("step %d executed trades (position of contract %d went from %r to %r) and ended the episode, but the track record "
                             "has %d entries, not %d: an executed decision without an entry" % (
                                 j, moved[0], led.q[moved[0]], float(hq.get(F.contracts[moved[0]], 0.0)), len(tr), ntr + 1))
                    return stats
                entry = tr[-1]
                led.interest += float(entry.profit_on_idle_cash)
                if not abs(entry.context_pre.nlv - led.nlv()) <= 1e-9 * led.scale():
                    res.fail("execution %d (ruined by its own costs): context_pre.nlv %.12g, ledger wealth before the trades %.12g" % (
                        j, entry.context_pre.nlv, led.nlv()))
                    return stats
                for trd in entry.trades:
                    led.trade(F.index(trd.contract), float(trd.quantity))
                if any(0 < abs(led.q[i]) < 1e-7 for i in range(n)):
                    # a nearly exhausted account sized a position inside the documented epsilon band (zeroed by design)
                    res.excluded = "position-inside-documented-epsilon-band"
                    stats["ruin"] = True
                    return stats
                for i in range(n):
                    got = float(hq.get(F.contracts[i], 0.0))
                    if not B.close(got, led.q[i], rel=1e-12, abs_=1e-12):
                        res.fail("execution %d (ruined by its own costs): contract %d holds %r, the recorded trades give %r" % (j, i, got, led.q[i]))
                        return stats
                if not abs(float(entry.context_post.nlv) - led.nlv()) <= 1e-9 * led.scale() or led.nlv() > 1e-9 * led.scale():
                    res.fail("execution %d (ruined by its own costs): context_post.nlv %.12g, ledger wealth after the trades %.12g" % (
                        j, float(entry.context_post.nlv), led.nlv()))
                    return stats
                if not done:
                    res.fail("step %d: the account was exhausted by the costs of its trades but done=False" % j)
                    return stats
            stats["ruin"] = True
            break
        if len(tr) != ntr + 1:
            res.fail("step %d executed a decision but the track record has %d entries (expected %d)" % (j, len(tr), ntr + 1))
            return stats
        ntr += 1
        entry = tr[-1]
        stats["executions"] += 1
        if "fifo" in checks or "ledger" in checks:
            if info["_rebalancing"] is not entry:
                res.fail("step %d: info['_rebalancing'] is not the last track-record entry" % j)
                return stats
        # ---- time stamp
        if entry.time != E.dt(t_exec):
            res.fail("execution %d stamped %s, latest event processed before it is %s" % (j, entry.time, E.dt(t_exec)))
            return stats
        if last_reb_us is not None and not t_exec > last_reb_us:
            res.fail("track record times not strictly increasing at execution %d" % j)
            return stats
        # ---- FIFO
        if "fifo" in checks:
            src = j - 1 - delay
            want = expected_allocation(b, actions[src]) if src >= 0 else null_allocation(b)
            got = {}
            for c, v in entry.allocation.items():
                got[F.owner[F.index(c)]] = float(v)
            if got != want:
                res.fail("execution %d (delay %d) carries allocation %s, expected the one submitted at decision %d: %s" % (
                    j, delay, got, src + 1, want))
                return stats
            executed.append(got)
        # ---- interest
        interest = float(entry.profit_on_idle_cash)
        if interest != 0:
            stats["interest_nonzero"] += 1
        if "ledger" in checks and last_mark_cash is not None:
            years = (t_exec - last_reb_us) / 1e6 / SECONDS_IN_YEAR
            sign = (last_mark_cash > 0) - (last_mark_cash < 0)
            cagr = rate - case.get("markup", 0.0) * sign
            want_i = last_mark_cash * ((1 + cagr) ** years - 1)
            if last_mark_cash > 0 and want_i < 0:
                want_i = 0.0
            if not abs(interest - want_i) <= 1e-6 * abs(want_i) + 1e-9 * led.scale() * max(1.0, years):
                res.fail("execution %d: recorded interest %.12g, closed form on the ledger's cash %.12g (cash %.6g, rate %g, years %.6g)" % (
                    j, interest, want_i, last_mark_cash, rate, years))
                return stats
        led.interest += interest
        nlv_pre_model = led.nlv()
        tol = 1e-9 * led.scale()
        if "ledger" in checks:
            if not abs(entry.context_pre.nlv - nlv_pre_model) <= tol:
                res.fail("execution %d: context_pre.nlv %.12g, ledger wealth before the trades %.12g" % (j, entry.context_pre.nlv, nlv_pre_model))
                return stats
            if not check_context(res, F, led, entry.context_pre, "pre", j):
                return stats
        # ---- trades
        any_nonzero = False
        for trd in entry.trades:
            i = F.index(trd.contract)
            px_model = ask[i] if trd.quantity > 0 else bid[i]
            if "pricing" in checks or "ledger" in checks:
                if float(trd.acq_price) != px_model:
                    res.fail("execution %d: %s of contract %d priced at %r, last quote stamped <= t+latency gives %r" % (
                        j, "buy" if trd.quantity > 0 else "sell", i, trd.acq_price, px_model))
                    return stats
            px, fee = led.trade(i, float(trd.quantity))
            if "ledger" in checks and not abs(float(trd.cost_of_commissions) - fee) <= 1e-9 * max(1.0, fee):
                res.fail("execution %d: recorded commission %.12g, fee schedule gives %.12g" % (j, trd.cost_of_commissions, fee))
                return stats
            any_nonzero = True
        if any_nonzero:
            stats["nonzero_trade_execs"] += 1
        if any(0 < abs(led.q[i]) < 1e-7 for i in range(n)):
            # (only reachable when fees have all but exhausted the account: weights of >= 2% then size positions inside the
            #  documented epsilon band, which the broker zeroes by design)
            res.excluded = "position-inside-documented-epsilon-band"
            stats["ruin"] = True
            return stats
        if prev_book is not None and (prev_book[0] != bid or prev_book[1] != ask):
            stats["quote_changed_between"] += 1
        prev_book = (list(bid), list(ask))
        if "target" in checks:
            alloc = {F.index(c): float(v) for c, v in entry.allocation.items()}
            pre = float(entry.context_pre.nlv)
            hq_post = entry.context_post.nr_contracts
            for i in range(n):
                qp = float(hq_post.get(F.contracts[i], 0.0))
                w = alloc.get(i, 0.0)
                if w == 0.0:
                    if qp != 0.0 and b.case.get("threshold", 0.0) == 0.0:
                        res.fail("execution %d: contract %d has no entry in the executed allocation but keeps position %r" % (j, i, qp))
                        return stats
                elif as_weights(b):
                    px = ask[i] if w > 0 else bid[i]
                    if b.case.get("threshold", 0.0) == 0.0 and not B.close(qp * F.mult[i] * px, w * pre, rel=1e-9, abs_=1e-9 * abs(pre)):
                        res.fail("execution %d: contract %d position x multiplier x quote = %.12g, weight x pre-trade NLV = %.12g" % (
                            j, i, qp * F.mult[i] * px, w * pre))
                        return stats
                else:
                    if not B.close(qp, w, rel=1e-12, abs_=1e-9):
                        res.fail("execution %d: contract %d holds %r contracts, the action denotes %r" % (j, i, qp, w))
                        return stats
        if "ledger" in checks:
            hq = entry.context_post.nr_contracts
            for i in range(n):
                got = float(hq.get(F.contracts[i], 0.0))
                if not B.close(got, led.q[i], rel=1e-12, abs_=1e-12):
                    res.fail("execution %d: recorded holding of contract %d is %r, cumulative recorded trades give %r" % (j, i, got, led.q[i]))
                    return stats
            if not abs(entry.context_post.nlv - led.nlv()) <= 1e-9 * led.scale():
                res.fail("execution %d: context_post.nlv %.12g, ledger wealth after the trades %.12g" % (j, entry.context_post.nlv, led.nlv()))
                return stats
            if not check_context(res, F, led, entry.context_post, "post", j):
                return stats
        # ---- latency boundary bookkeeping (non-trivial rule of C08)
        sj = tm.steps[j]
        for e in before:
            if e[4] == sj and e[5] and e[2] == "Q":
                if e[0] - tm.grid[sj - 1] == tm.latency and tm.latency > 0:
                    stats["boundary_quote"] += 1
                stats["latent_quote_changed_price"] += 1
        # ---- after the step's market events
        after = tm.delivered_after_step(j)
        bid2, ask2, rate2, t_after = F.book(after)
        for i in range(n):
            led.quote(i, bid2[i], ask2[i])
        nlv_now = led.nlv()
        last_reb_us = t_exec
        cash = nlv_now
        for i in range(n):
            if led.q[i] != 0:
                v = led.q[i] * led.liq(i) * F.mult[i]
                cash -= (F.margin[i] * abs(v)) if F.margined[i] else v
        last_mark_cash = cash
        if nlv_now <= 1e-9 * led.scale():
            stats["ruin"] = True
            if nlv_now < -1e-9 * led.scale() and not done:
                res.fail("step %d: ledger NLV %.6g <= 0 after the step's market events but done=False" % (j, nlv_now))
            break
        if "reward" in checks:
            spec = case.get("reward", ["simple"])
            pre = float(entry.context_pre.nlv)
            want_r = E.reward_model(spec, nlv_now, pre)
            eps = 1e-9 * led.scale()
            if spec[0] == "pnl":
                rtol = 2 * eps
            elif spec[0] == "simple":
                rtol = 2 * eps / pre * (1 + nlv_now / pre)
            else:
                amp = (1.0 / spec[1] * (1 + spec[3])) if spec[0] == "logret" else 1.0
                rtol = 2 * amp * (eps / pre + eps / nlv_now)
            if not abs(float(reward) - want_r) <= rtol + 1e-12 * max(1.0, abs(want_r)):
                res.fail("step %d: reward %r, %s of ledger NLV %.12g over recorded pre-trade NLV %.12g is %r" % (
                    j, reward, spec, nlv_now, pre, want_r))
                return stats
            rewards.append(float(reward))
            pre_nlvs.append(pre)
        stats["final_nlv"] = nlv_now
        if done:
            break
    # ---- whole-episode relations
    if res.violations:
        return stats
    if "reward" in checks and rewards and case.get("reward", ["simple"])[0] == "simple" and b.latency_us == 0 \
            and stats["interest_nonzero"] == 0 and not stats["ruin"]:
        prod = 1.0
        for r in rewards:
            prod *= (1 + r)
        want = stats["final_nlv"] / pre_nlvs[0]
        if not abs(prod - want) <= 1e-9 * len(rewards) * max(1.0, want) * led.scale() / max(1e-12, min(pre_nlvs)):
            res.fail("simple returns compound to %.12g, final NLV / initial NLV is %.12g" % (prod, want))
        else:
            res.tag("telescoping-checked")
    if "fifo" in checks and executed and not stats["ruin"]:
        submitted = [expected_allocation(b, a) for a in actions[:len(executed)]]
        want = ([null_allocation(b)] * delay + submitted)[:len(executed)]
        if executed != want:
            res.fail("executed allocations are not the submitted ones in order after %d null decisions" % delay)
    if "frames" in checks and len(env.broker.track_record) > 0:
        check_frames(res, env.broker.track_record)
    return stats


def index_of(b, contract):
    for i, c in enumerate(b.contracts):
        if c.symbol == contract.symbol:
            return i
        for u in c.underlyings:
            if u.symbol == contract.symbol:
                return i
    raise KeyError(contract)


def check_context(res, b, led, ctx, which, j):
    nlv = led.nlv()
    if not nlv > 1e-6 * led.scale():
        return True
    # inside one snapshot: cash + posted margins + fully-paid values == the NLV it reports
    cash = None
    for c, v in ctx.nr_contracts.items():
        if type(c).__name__ == "Cash":
            cash = float(v)
    if cash is not None:
        tot = cash + sum(float(v) for v in ctx.margins.values())
        for i in range(b.n):
            q = float(ctx.nr_contracts.get(b.contracts[i], 0.0))
            if not b.margined[i] and q != 0:
                tot += q * led.liq(i, q) * b.mult[i]
        if not abs(tot - float(ctx.nlv)) <= 1e-9 * led.scale():
            res.fail("execution %d: context_%s holds cash %.12g; cash + margins + fully-paid values = %.12g but it reports NLV %.12g" % (
                j, which, cash, tot, float(ctx.nlv)))
            return False
    for i in range(b.n):
        want = led.q[i] * led.liq(i) * b.mult[i] / nlv if led.q[i] != 0 else 0.0
        got = float(ctx.weights.get(b.contracts[i], 0.0))
        if not B.close(got, want, rel=1e-7, abs_=1e-9 * led.scale() / nlv):
            res.fail("execution %d: context_%s weight of contract %d is %.12g, q*liq*M/NLV = %.12g" % (j, which, i, got, want))
            return False
    return True


def check_frames(res, tr):
    n = len(tr)
    pre = tr.net_liquidation_value()
    post = tr.net_liquidation_value(before_rebalancing=False)
    if len(pre) != n or len(post) != n:
        res.fail("TrackRecord.net_liquidation_value() has %d rows for %d entries" % (len(pre), n))
        return
    costs = tr.transaction_costs()
    per = tr.transaction_costs(cumulative=False)
    acc_i = acc_s = acc_f = 0.0
    times = []
    for k in range(n):
        e = tr[k]
        times.append(e.time)
        if float(pre.iloc[k, 0]) != float(e.context_pre.nlv) or float(post.iloc[k, 0]) != float(e.context_post.nlv):
            res.fail("TrackRecord.net_liquidation_value() row %d differs from the entry's context NLV" % k)
            return
        i_k = float(e.profit_on_idle_cash)
        s_k = sum(t.cost_of_spread for t in e.trades)
        f_k = sum(t.cost_of_commissions for t in e.trades)
        acc_i += i_k
        acc_s += s_k
        acc_f += f_k
        row = per.iloc[k]
        if not (B.close(float(row["Profit on idle Cash"]), i_k, 1e-12, 1e-15) and B.close(float(row["Spread"]), s_k, 1e-12, 1e-15)
                and B.close(float(row["Broker fees"]), f_k, 1e-12, 1e-15)):
            res.fail("TrackRecord.transaction_costs(cumulative=False) row %d differs from the entry" % k)
            return
        crow = costs.iloc[k]
        if not (B.close(float(crow["Profit on idle Cash"]), acc_i, 1e-9, 1e-12) and B.close(float(crow["Spread"]), acc_s, 1e-9, 1e-12)
                and B.close(float(crow["Broker fees"]), acc_f, 1e-9, 1e-12)):
            res.fail("TrackRecord.transaction_costs() cumulative row %d differs from the running sums" % k)
            return
    if list(pre.index) != [np.datetime64(t) for t in times] and [x.to_pydatetime() for x in pre.index] != times:
        res.fail("TrackRecord.net_liquidation_value() index differs from the entries' times")
    if res.violations:
        return
    # burn=True drops the initial checkpoints that traded nothing (the account was all cash), and nothing else
    k0 = next((k for k in range(n) if len(tr[k].trades) != 0), n)
    burned = tr.net_liquidation_value(burn=True)
    want = [float(tr[k].context_pre.nlv) for k in range(k0, n)]
    if [float(x) for x in burned.iloc[:, 0]] != want:
        res.fail("TrackRecord.net_liquidation_value(burn=True) has %d rows; dropping the %d initial no-trade checkpoints of %d leaves %d" % (
            len(burned), k0, n, n - k0))
        return
    if len(tr.transaction_costs(burn=True, cumulative=False)) != n - k0:
        res.fail("TrackRecord.transaction_costs(burn=True) has %d rows, expected %d" % (len(tr.transaction_costs(burn=True, cumulative=False)), n - k0))
        return
    # weights frames: one row per executed decision, aligned with the NLV frame
    wt = tr.weights_target()
    wa = tr.weights_actual()
    for name, frame in (("weights_target", wt), ("weights_actual", wa)):
        if len(frame) != n or [x.to_pydatetime() if hasattr(x, "to_pydatetime") else x for x in frame.index] != times:
            res.fail("TrackRecord.%s() has %d rows for %d executed decisions (or another index than the NLV frame)" % (name, len(frame), n))
            return
    for k in range(n):
        for c, v in tr[k].allocation.items():
            got = float(wt.iloc[k][c]) if c in wt.columns else float("nan")
            if not (got == float(np.float32(v))):
                res.fail("TrackRecord.weights_target() row %d shows %r for %s, the executed allocation says %r" % (k, got, c, float(v)))
                return
        others = [c for c in wt.columns if c not in tr[k].allocation]
        if any(not np.isnan(float(wt.iloc[k][c])) for c in others):
            res.fail("TrackRecord.weights_target() row %d has values for contracts outside the executed allocation" % k)
            return
    if len(tr.weights_target(burn=True)) != n - k0 or len(tr.weights_actual(burn=True)) != n - k0:
        res.fail("weights frames with burn=True have %d / %d rows, expected %d" % (len(tr.weights_target(burn=True)), len(tr.weights_actual(burn=True)), n - k0))
    if any(not a < b_ for a, b_ in zip(times, times[1:])):
        res.fail("track record times are not strictly increasing")
