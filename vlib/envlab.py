"""envlab: generated grids, event streams and TradingEnv configurations; recorder; traces; timing model.

A case is plain JSON (see `episode_cases`). Times are integer microseconds since T0; the harness builds
datetimes from them, and the timing model works on the integers only:

    slot(e)   = first grid point >= e.time (events after the last grid point are never delivered)
    latent(e) = e.time - (grid point preceding the slot) <= latency         (false for the first grid point)
    steps     = event-bearing slots inside the fold, in order
    reset delivers every event whose slot <= steps[0]; step k (k>=1) delivers the latent events of steps[k],
    executes the pending decision, then delivers the non-latent events of steps[k].
"""
import bisect
import math
from datetime import datetime, timedelta

import numpy as np
import pandas as pd
from hypothesis import strategies as st

from tradingenv.env import TradingEnv
from tradingenv.transmitter import Transmitter
from tradingenv.state import IState, State
from tradingenv.events import (IEvent, EventNBBO, EventReset, EventStep, EventDone, EventNewDate,
                               EventContractDiscontinued, EventNewObservation)
from tradingenv.broker.fees import BrokerFees
from tradingenv.broker.broker import EndOfEpisodeError
from tradingenv.contracts import Rate, Cash, ETF, ES, FutureChain, AbstractContract
from tradingenv.spaces import BoxPortfolio, DiscretePortfolio
from tradingenv import rewards as RW
from vlib import brokerlab as B

T0 = datetime(2019, 1, 2, 9, 30)
US = 1_000_000


def dt(us):
    return T0 + timedelta(microseconds=int(us))


def us_of(t):
    d = t - T0
    return (d.days * 86400 + d.seconds) * US + d.microseconds


class Ping(IEvent):
    """Custom event carried by the stream; consumed by RecState."""

    def __init__(self, time, uid, value=0.0):
        self.time = time
        self.uid = uid
        self.value = value


class RecState(IState):
    """Observer subscribed to every event type. Logs (kind, id, event time, number of executed
    decisions so far, clock) and keeps running statistics so that the observation carries history."""

    def __init__(self):
        super().__init__()
        self.log = []
        self.acc = 0.0
        self.count = 0
        self.last_ping = 0.0

    def _rec(self, kind, ident, event):
        tr = self.broker.track_record if getattr(self, "broker", None) is not None else None
        self.log.append((kind, ident, event.time, len(tr) if tr is not None else -1, AbstractContract.now))

    def process_EventNBBO(self, event):
        self._rec("Q", (event.contract.symbol, float(event.bid_price).hex(), float(event.ask_price).hex()), event)
        if not isinstance(event.contract, (Rate, Cash)):
            self.acc += 0.5 * (event.bid_price + event.ask_price)
            self.count += 1

    def process_Ping(self, event):
        self._rec("P", event.uid, event)
        if event.value == event.value:          # an all-NaN row of a custom-event table carries no value
            self.last_ping = event.value
            self.acc += event.value

    def process_EventReset(self, event):
        self._rec("RESET", None, event)

    def process_EventStep(self, event):
        self._rec("STEP", None, event)

    def process_EventDone(self, event):
        self._rec("DONE", None, event)

    def process_EventNewDate(self, event):
        self._rec("NEWDATE", None, event)

    def process_EventContractDiscontinued(self, event):
        self._rec("DISC", event.contract.symbol, event)

    def parse(self):
        return np.array([self.acc, float(self.count), self.last_ping])


class InheritingRecState(RecState):
    """A user-defined observer that INHERITS every process_<Event> callback from its parent class."""

    def parse(self):
        return np.array([self.acc, float(self.count), self.last_ping, 1.0])


from tradingenv.features import Feature
import gymnasium


class RollingFeature(Feature):
    """A feature holding the last 3 mid prices in ONE array that it updates in place and hands out from parse()."""

    def __init__(self, save=True):
        super().__init__(space=gymnasium.spaces.Box(-1e12, 1e12, (3,), float), name="rolling", save=save)
        self.buf = np.zeros(3)

    def process_EventNBBO(self, event):
        if not isinstance(event.contract, (Rate, Cash)):
            self.buf[:-1] = self.buf[1:]
            self.buf[-1] = 0.5 * (event.bid_price + event.ask_price)

    def parse(self):
        return self.buf


class PeakFeature(Feature):
    """A feature that observes NO event: it tracks the running peak of the account value inside parse()."""

    def __init__(self):
        super().__init__(space=gymnasium.spaces.Box(-1e12, 1e12, (2,), float), name="peak")
        self.peak = 0.0
        self.calls = 0

    def parse(self):
        nlv = self.broker.net_liquidation_value(raise_if_broke=False) if self.broker is not None else 0.0
        self.peak = max(self.peak, float(nlv))
        self.calls += 1
        return np.array([float(nlv) - self.peak, float(self.calls)])


class RecWindowState(State):
    """The library's windowed State (fed by EventNewObservation rows) plus the recorder's log."""

    def __init__(self, nfeat, window, stride=None):
        super().__init__(nfeat, window, stride, max_=1e9)
        self.log = []

    def process_EventNewObservation(self, event):
        super().process_EventNewObservation(event)
        tr = self.broker.track_record if getattr(self, "broker", None) is not None else None
        self.log.append(("OBS", tuple(float(v).hex() for v in event.to_list()), event.time,
                         len(tr) if tr is not None else -1, AbstractContract.now))


def make_state(case, contracts=()):
    st_ = case.get("state", ["rec"])
    if st_[0] == "rec":
        return RecState()
    if st_[0] == "rec-inherited":
        return InheritingRecState()
    if st_[0] == "library":
        # the library's own features, with their default transformers fitted at construction (fit_transformers=True)
        from tradingenv.library import FeaturePortfolioWeight, FeaturePrices
        # (the weight feature's declared range is wider than the action bounds: held weights drift with prices)
        total = bool(st_[4]) if len(st_) > 4 else False       # total=True: one entry, the sum of the weights
        k = len(contracts) if total else 1
        return [FeaturePortfolioWeight(list(contracts), k * (2 * st_[1] - 1.0), k * (2 * st_[2] + 1.0), total=total), FeaturePrices(list(contracts))]
    if st_[0] == "features":
        # a state given as a list of features (the documented shortcut): one saved or unsaved rolling feature, one
        # feature without event callbacks
        return [RollingFeature(save=bool(st_[1])), PeakFeature()]
    return RecWindowState(st_[1], st_[2], st_[3])


class TurnoverReward(RW.AbstractReward):
    """A user-defined reward that never values the account: minus the number of trades of the last execution."""

    def calculate(self, env):
        tr = env.broker.track_record
        return -float(len(tr[-1].trades)) if len(tr) else 0.0


def make_reward(spec, by_name=False):
    kind = spec[0]
    if kind == "custom":
        return TurnoverReward()
    if by_name and kind in ("simple", "log", "pnl"):
        # the documented shortcut: the reward given as the name of a class of tradingenv.rewards
        return {"simple": "RewardSimpleReturn", "log": "RewardLogReturn", "pnl": "RewardPnL"}[kind]
    if kind == "simple":
        return RW.RewardSimpleReturn()
    if kind == "log":
        return RW.RewardLogReturn()
    if kind == "pnl":
        return RW.RewardPnL()
    if kind == "logret":
        return RW.LogReturn(scale=spec[1], clip=spec[2], risk_aversion=spec[3])
    raise ValueError(kind)


def reward_model(spec, nlv_now, nlv_pre):
    kind = spec[0]
    if kind == "simple":
        return nlv_now / nlv_pre - 1
    if kind == "log":
        return math.log(nlv_now / nlv_pre)
    if kind == "pnl":
        return nlv_now - nlv_pre
    r = math.log(nlv_now / nlv_pre) / spec[1]
    r = max(-spec[2], min(spec[2], r))
    if r < 0:
        r *= (1 + spec[3])
    return r


class Built:
    """Everything derived from a case: contracts, grid, the input stream (model view) and the env."""
    pass


def grid_of(case):
    g = []
    t = case.get("t_first", 0)
    for gap in case["gaps"]:
        t += gap
        g.append(t)
    return g          # microseconds, strictly increasing (gaps > 0)


CHAIN_CLASSES = {"ES": ES}


def make_any_contract(spec, i):
    if spec["kind"] == "chain":
        from tradingenv import contracts as C
        cls = getattr(C, spec["cls"])
        chain = FutureChain(cls, spec["start"], spec["end"], month=spec.get("month", 0))
        return chain, float(chain.multiplier), float(chain.margin_requirement), True
    return B.make_contract(spec, i)


def build(case, make_env=True, stream_override=None):
    b = Built()
    b.case = case
    b.grid = grid_of(case)
    specs = case["contracts"]
    b.n = len(specs)
    made = [make_any_contract(s, i) for i, s in enumerate(specs)]
    b.contracts = [m[0] for m in made]
    b.mult = [m[1] for m in made]
    b.margin = [m[2] for m in made]
    b.margined = [m[3] for m in made]
    b.latency_us = case.get("latency_us", 0)
    b.latency = timedelta(microseconds=b.latency_us).total_seconds()
    b.rate_contract = Rate("R")
    # ---- input stream: list of (time_us, kind, payload) in insertion order
    stream = []
    mids = [s["p0"] for s in specs]
    empty = set(case.get("empty_points", []))
    for gi, row in enumerate(case["bars"]):
        for ci, (mv, sp) in enumerate(row):
            mids[ci] = min(max(mids[ci] * mv, 1e-3), 1e7)
            if gi in empty:
                continue          # a grid timestep that bears no event at all (e.g. a holiday kept in the calendar)
            if specs[ci]["kind"] == "chain":
                # one quote per listed contract that has not expired yet (term structure: +0.5% per contract)
                now = dt(b.grid[gi])
                for ui, fut in enumerate(b.contracts[ci].contracts):
                    if fut.expiry > now:
                        mid = mids[ci] * (1 + 0.005 * ui)
                        stream.append((b.grid[gi], "QU", (ci, ui, mid * (1 - sp / 2), mid * (1 + sp / 2))))
            else:
                stream.append((b.grid[gi], "Q", (ci, mids[ci] * (1 - sp / 2), mids[ci] * (1 + sp / 2))))
    for ex in case.get("extras", []):
        gi, off_us, ci, price_mult, sp = ex
        gi = gi % len(b.grid)
        t = b.grid[gi] + off_us
        ci = ci % b.n
        mid = specs[ci]["p0"] * price_mult
        stream.append((t, "Q", (ci, mid * (1 - sp / 2), mid * (1 + sp / 2))))
    for (gi, off_us, ci, price_mult, sp) in case.get("chain_extras", []):
        # an extra quote for every unexpired listed contract of chain ci, off_us after grid point gi
        gi = gi % len(b.grid)
        t = b.grid[gi] + off_us
        now = dt(t)
        for ui, fut in enumerate(b.contracts[ci].contracts):
            if fut.expiry > now:
                mid = specs[ci]["p0"] * price_mult * (1 + 0.005 * ui)
                stream.append((t, "QU", (ci, ui, mid * (1 - sp / 2), mid * (1 + sp / 2))))
    for gi, r in case.get("rates", []):
        stream.append((b.grid[gi % len(b.grid)], "RATE", r))
    ping_rows = [(b.grid[gi % len(b.grid)] + off_us, "P", (i, val)) for i, (gi, off_us, val) in enumerate(case.get("pings", []))]
    if not case.get("pings_via_frame"):
        stream.extend(ping_rows)
    for (gi, off_us, values) in case.get("obs", []):
        stream.append((b.grid[gi % len(b.grid)] + off_us, "OBS", list(values)))
    if case.get("pings_via_frame"):
        # custom events loaded from a table (Transmitter.add_custom_events) are appended after everything else;
        # the table may contain completely empty rows (payload NaN)
        for k, row in enumerate(ping_rows):
            stream.append(row)
            if k in set(case.get("ping_nan_rows", [])):
                stream.append((row[0] + case.get("ping_nan_shift_us", 0), "P", (float("nan"), float("nan"))))
    # events the environment adds by itself at construction (contract.make_events(): discontinuation at expiry);
    # they are not in the transmitter's input but take part in delivery, so the timing model must know them
    b.auto_events = []
    for c in b.contracts:
        for ev in c.make_events():
            b.auto_events.append((us_of(datetime(ev.time.year, ev.time.month, ev.time.day, ev.time.hour, ev.time.minute,
                                                 ev.time.second, ev.time.microsecond)), "XDISC", ev.contract.symbol))
    b.base_stream = stream
    b.stream = list(stream_override) if stream_override is not None else stream
    if make_env:
        b.env = make_env_from(b)
    return b


def events_from_stream(b):
    events = []
    for t, kind, payload in b.stream:
        if kind == "Q":
            ci, bid, ask = payload
            events.append(EventNBBO(stamp(b.case, t), b.contracts[ci], bid, ask))
        elif kind == "QU":
            ci, ui, bid, ask = payload
            events.append(EventNBBO(stamp(b.case, t), b.contracts[ci].contracts[ui], bid, ask))
        elif kind == "RATE":
            events.append(EventNBBO(stamp(b.case, t), b.rate_contract, payload, payload))
        elif kind == "P":
            if b.case.get("pings_via_frame"):
                continue                    # delivered through add_custom_events, see frame_of_pings
            events.append(Ping(stamp(b.case, t), payload[0], payload[1]))
        elif kind == "DISC":
            events.append(EventContractDiscontinued(stamp(b.case, t), b.contracts[payload]))
        elif kind == "OBS":
            events.append(EventNewObservation(stamp(b.case, t), {i: v for i, v in enumerate(payload)}))
        else:
            raise ValueError(kind)
    return events


def frame_of_pings(b):
    rows = [(t, payload) for (t, kind, payload) in b.stream if kind == "P"]
    if not rows:
        return None
    return pd.DataFrame({"uid": [p[0] for _, p in rows], "value": [p[1] for _, p in rows]},
                        index=pd.DatetimeIndex([dt(t) for t, _ in rows]))


def space_contracts(b):
    """Contracts of the action space: the traded contracts, optionally with the cash contract inserted."""
    cs = list(b.contracts)
    pos = b.case.get("cash_pos")
    if pos is not None:
        cs.insert(pos % (len(cs) + 1), Cash())
    return cs


def make_space(b):
    case = b.case
    sp = case.get("space", ["box", -3.0, 3.0])
    if sp[0] == "box":
        lo, hi = sp[1], sp[2]
        if isinstance(lo, list):        # per-contract bounds (gymnasium takes arrays, not lists)
            lo, hi = np.array(lo, dtype=float), np.array(hi, dtype=float)
        return BoxPortfolio(space_contracts(b), low=lo, high=hi, as_weights=(sp[3] if len(sp) > 3 else True),
                            fractional=(sp[4] if len(sp) > 4 else True), margin=case.get("threshold", 0.0))
    if sp[0] == "discrete":
        return DiscretePortfolio(space_contracts(b), allocations=[list(a) for a in sp[1]],
                                 as_weights=(sp[2] if len(sp) > 2 else True))
    raise ValueError(sp)


def make_env_from(b):
    case = b.case
    folds = None
    if case.get("fold"):
        lo, hi = case["fold"]
        folds = {"f": [dt(lo), dt(hi)], "whole": [dt(b.grid[0]), dt(b.grid[-1])]}     # ("whole": a second fold, used by C10)
    tr = Transmitter(timesteps=[stamp(case, g) for g in b.grid], folds=folds,
                     markov_reset=case.get("markov", False),
                     warmup=timedelta(microseconds=case["warmup_us"]) if case.get("warmup_us") else None)
    tr.add_events(events_from_stream(b))
    if case.get("pings_via_frame"):
        frame = frame_of_pings(b)
        if frame is not None:
            tr.add_custom_events(frame, Ping)
    fixed, prop = case.get("fees", [0.0, 0.0])
    fees = BrokerFees(markup=case.get("markup", 0.0), interest_rate=b.rate_contract, proportional=prop, fixed=fixed)
    if case.get("pre_env_latency_us") is not None:
        # Another environment with a different latency was built earlier on the same Transmitter object (and is no
        # longer used): the latency split belongs to the environment built last.
        TradingEnv(action_space=make_space(b), state=RecState(), reward=make_reward(["simple"]), transmitter=tr,
                   initial_cash=100.0, broker_fees=BrokerFees(interest_rate=b.rate_contract),
                   latency=timedelta(microseconds=case["pre_env_latency_us"]).total_seconds(), steps_delay=0)
    if case.get("use_defaults"):
        # the configuration a user gets by passing only what is required (state, reward, fees left to their defaults)
        env = TradingEnv(action_space=make_space(b), transmitter=tr, initial_cash=case.get("deposit", 1000.0),
                         latency=b.latency, steps_delay=case.get("delay", 0), episode_length=case.get("episode_length"))
        return env
    env = TradingEnv(action_space=make_space(b), state=make_state(case, b.contracts), reward=make_reward(case.get("reward", ["simple"]), case.get("reward_by_name")),
                     transmitter=tr, initial_cash=case.get("deposit", 1000.0), broker_fees=fees,
                     latency=b.latency, steps_delay=case.get("delay", 0),
                     episode_length=case.get("episode_length"), sampling_span=case.get("sampling_span"),
                     fit_transformers=(case.get("state", ["rec"])[0] == "library" and (len(case["state"]) < 4 or bool(case["state"][3]))))
    if case.get("readd_timesteps"):
        # The user still holds the transmitter and registers timesteps again after the environment was built. They are
        # all already on the grid (duplicates are in the domain, C04), so whether late additions are picked up at
        # the next reset or not, the set of timesteps - and the environment's latency - are what they were.
        tr.add_timesteps([stamp(case, b.grid[i % len(b.grid)]) for i in case["readd_timesteps"]])
    return env


def fold_name(case):
    return "f" if case.get("fold") else "training-set"


# ------------------------------------------------------------------------------------------ timing model

class Timing:
    """Delivery model over integer microseconds."""

    def __init__(self, b, extra_events=()):
        self.grid = b.grid
        self.latency = b.latency_us
        self.events = []       # (time, insertion index, kind, payload, slot index, latent)
        stream = list(b.stream) + list(getattr(b, "auto_events", [])) + list(extra_events)
        for idx, (t, kind, payload) in enumerate(stream):
            if t > self.grid[-1]:
                continue
            k = bisect.bisect_left(self.grid, t)
            latent = k > 0 and (t - self.grid[k - 1]) <= self.latency
            self.events.append((t, idx, kind, payload, k, latent))
        self.events.sort(key=lambda e: (e[0], e[1]))
        fold = b.case.get("fold")
        lo, hi = (fold if fold else (-10 ** 18, 10 ** 18))
        slots = sorted({e[4] for e in self.events})
        self.steps = [k for k in slots if lo <= self.grid[k] <= hi]

    def delivered_before_execution(self, j):
        """Events applied before the execution of step j (j >= 1): everything delivered at reset and in earlier
        steps plus the latent events of steps[j]. Assumes a non-markov, no-warm-up environment."""
        sj = self.steps[j]
        out = []
        for e in self.events:
            if e[4] < sj or (e[4] == sj and e[5]):
                out.append(e)
        return out

    def delivered_after_step(self, j):
        sj = self.steps[j]
        return [e for e in self.events if e[4] <= sj]

    @staticmethod
    def book(events, n):
        """Last quote per contract in delivery order; rate: last rate quote."""
        bid = [float("nan")] * n
        ask = [float("nan")] * n
        rate = 0.0
        last_t = None
        for e in events:
            if e[2] == "Q":
                ci, b_, a_ = e[3]
                bid[ci], ask[ci] = b_, a_
            elif e[2] == "RATE":
                rate = e[3]
            last_t = e[0]
        return bid, ask, rate, last_t


# ------------------------------------------------------------------------------------------------ traces

def hexf(x):
    try:
        return float(x).hex()
    except (TypeError, ValueError):
        return repr(x)


def obs_key(obs):
    if isinstance(obs, np.ndarray):
        return obs.tobytes().hex()
    if isinstance(obs, dict):
        return {str(k): obs_key(v) for k, v in obs.items()}
    return repr(type(obs))


def rebalancing_key(reb):
    if reb is None:
        return None
    return {
        "time": str(reb.time),
        "allocation": sorted((c.symbol, hexf(v)) for c, v in reb.allocation.items()),
        "interest": hexf(reb.profit_on_idle_cash),
        "trades": [(t.contract.symbol, hexf(t.quantity), hexf(t.acq_price), hexf(t.bid_price), hexf(t.ask_price),
                    hexf(t.cost_of_commissions)) for t in reb.trades],
        "pre_nlv": hexf(reb.context_pre.nlv),
        "post_nlv": hexf(reb.context_post.nlv),
        "pre_w": sorted((c.symbol, hexf(v)) for c, v in reb.context_pre.weights.items()),
        "post_q": sorted((c.symbol, hexf(v)) for c, v in reb.context_post.nr_contracts.items()),
    }


def snapshot(env, obs, reward, done, info):
    br = env.broker
    try:
        nlv = hexf(br.net_liquidation_value(raise_if_broke=False))
    except Exception as exc:  # noqa  (missing price etc.)
        nlv = "raises:" + type(exc).__name__
    return {
        "obs": obs_key(obs),
        "reward": hexf(reward) if reward is not None else None,
        "done": bool(done),
        "reb": rebalancing_key(info.get("_rebalancing")) if info else None,
        "holdings": sorted((c.symbol, hexf(v)) for c, v in br.holdings_quantity.items()),
        "nlv": nlv,
        "now": str(env.now()),
        "ntr": len(br.track_record),
    }


def log_key(state):
    return [(k, repr(i), str(t), n, str(now)) for (k, i, t, n, now) in getattr(state, "log", [])]


def run_episode(env, actions, fold="training-set", seed=None, max_steps=None, with_log=True, action_kind="array64"):
    """reset + one step per action until done. Returns the trace (list of snapshots) and how it ended."""
    if seed is not None:
        np.random.seed(seed)
    trace = []
    kept = []             # (call index, the returned observation object, its value when returned)
    obs = env.reset(fold)
    kept.append((0, obs, obs_key(obs)))
    trace.append(snapshot(env, obs, None, env._done, {}))
    if with_log:
        trace[-1]["log"] = log_key(env.state)
    ended = "actions-exhausted"
    for k, a in enumerate(actions):
        if env._done:
            ended = "done"
            break
        if max_steps is not None and k >= max_steps:
            break
        mark = len(getattr(env.state, "log", []))
        try:
            obs, reward, done, info = env.step(to_action(a, action_kind))
        except Exception as exc:  # noqa
            trace.append({"exception": type(exc).__name__})
            ended = "exception:" + type(exc).__name__
            break
        snap = snapshot(env, obs, reward, done, info)
        kept.append((len(trace), obs, snap["obs"]))
        if with_log:
            snap["log"] = log_key(env.state)[mark:]
        trace.append(snap)
        if done:
            ended = "done"
            break
    for (idx, ob, key) in kept:
        if obs_key(ob) != key:
            # an output that was already returned changed when later data arrived
            trace[idx]["obs"] = {"returned": key, "later": obs_key(ob)}
            trace[idx]["mutated_after_return"] = True
    return trace, ended


def to_action(a, kind="array64"):
    """The same action expressed in one of the equivalent ways a caller may use."""
    if isinstance(a, list):
        if kind == "list":
            return [float(x) for x in a]
        if kind == "tuple":
            return tuple(float(x) for x in a)
        if kind == "array32":
            return np.array(a, dtype=np.float32)
        return np.array(a, dtype=float)
    if isinstance(a, int) and kind in ("array32", "npint"):
        return np.int64(a)
    return a


def action_values(a, kind="array64"):
    """The numbers the environment sees for action `a` given in form `kind` (float32 rounds the entries)."""
    if isinstance(a, list) and kind == "array32":
        return [float(np.float32(x)) for x in a]
    return a


def stamp(case, us):
    """Timestamps are given either as datetime or as pandas.Timestamp."""
    t = dt(us)
    return pd.Timestamp(t) if case.get("time_type") == "timestamp" else t


# -------------------------------------------------------------------------------------------- strategies

GAPS_US = [60 * US, 300 * US, 3600 * US, 86400 * US, 3 * 86400 * US, 7 * US, 2 * US]


@st.composite
def episode_cases(draw, tier="quick", max_points=10, kinds=None, max_contracts=3, max_delay=2, leverage=2.0,
                  spreads=(0.0, 0.001, 0.02), with_rates=True, with_pings=True, boundary_extras=False,
                  distinct_actions=False, rewards=None, min_points=3, min_contracts=1, max_extras=8, action_step=0.03):
    """The defaults bound the size of a case for cost reasons only; the parts named `long` raise them (20-50 timesteps,
    4-8 contracts, up to 60 extra quotes) through min_points / min_contracts / max_extras."""
    npts = draw(st.integers(min_points, max_points))
    gaps = draw(st.lists(st.one_of(st.sampled_from(GAPS_US), st.integers(2 * US, 200000 * US)), min_size=npts, max_size=npts))
    mingap = min(gaps[1:])
    lat = draw(st.sampled_from([0, 0, 1, US, mingap // 2, mingap - 1, mingap - US if mingap > US else 1]))
    lat = max(0, min(lat, mingap - 1))
    n = draw(st.integers(min_contracts, max_contracts))
    kinds = kinds or ["etf", "uspot", "umargin", "es", "umargin"]
    specs = []
    for i in range(n):
        specs.append({"kind": draw(st.sampled_from(kinds)), "mult": draw(st.sampled_from([0.5, 1.0, 2.0, 10.0, 50.0])),
                      "margin": draw(st.sampled_from([0.05, 0.1, 0.3, 1.0])),
                      "p0": draw(st.one_of(st.sampled_from([1.0, 16.0, 100.0, 2500.0]), st.floats(0.5, 5000.0))), "s0": 0.0})
    sp = st.sampled_from(list(spreads))
    bars = [[(draw(st.floats(0.9, 1.1)), draw(sp)) for _ in range(n)] for _ in range(npts)]
    extras = []
    n_extra = draw(st.integers(0, max_extras))
    offs = [-US, -1, 1, lat - 1, lat, lat + 1, lat + US, mingap // 2, mingap // 3]
    for _ in range(n_extra):
        gi = draw(st.integers(0, npts - 1))
        off = draw(st.sampled_from(offs)) if (boundary_extras or draw(st.booleans())) else draw(st.integers(-mingap + 1, mingap - 1))
        if gi == 0 and off < 0:
            off = -off
        if off >= (gaps[gi + 1] if gi + 1 < npts else mingap):
            off = 1
        if off <= -(gaps[gi]) + 0:
            off = -1
        if off == 0:
            off = 1
        extras.append([gi, off, draw(st.integers(0, n - 1)), draw(st.floats(0.85, 1.15)), draw(sp)])
    rates = []
    if with_rates and draw(st.booleans()):
        for gi in sorted(set(draw(st.lists(st.integers(0, npts - 1), min_size=1, max_size=3)))):
            rates.append([gi, draw(st.sampled_from([0.0, 0.01, 0.05, 0.2, -0.01]))])
    pings = []
    if with_pings:
        for _ in range(draw(st.integers(0, 3))):
            gi = draw(st.integers(0, npts - 1))
            off = draw(st.sampled_from([0, 1, lat, lat + 1, -1])) if gi > 0 else draw(st.sampled_from([0, 1, lat, lat + 1]))
            if gi + 1 < npts and off >= gaps[gi + 1]:
                off = 0
            pings.append([gi, off, draw(st.floats(-5.0, 5.0))])
    delay = draw(st.integers(0, max_delay))
    nsteps = npts - 1
    actions = []
    base = draw(st.floats(-0.5, 0.5))
    for k in range(nsteps):
        if distinct_actions:
            w = [max(-leverage, min(leverage, base + (k + 1) * action_step + ci * 0.011)) / (n if min_contracts > 1 else 1) for ci in range(n)]
        else:
            # weights are 0 or at least 2% (positions inside the documented epsilon snapping band are out of domain)
            w = [draw(st.one_of(st.just(0.0), st.floats(-leverage, leverage).map(lambda x: 0.0 if abs(x) < 0.02 else x))) / n for _ in range(n)]
        actions.append(w)
    rew = draw(st.sampled_from(rewards or [["simple"], ["log"], ["pnl"], ["logret", 0.01, 2.0, 0.1], ["logret", 0.5, 1.0, 0.0]]))
    fees = [draw(st.sampled_from([0.0, 0.0, 0.5])), draw(st.sampled_from([0.0, 0.0, 0.001, 0.01]))]
    return {"gaps": gaps, "contracts": specs, "bars": [[list(x) for x in row] for row in bars], "extras": extras,
            "rates": rates, "pings": pings, "latency_us": lat, "delay": delay, "actions": actions, "reward": rew,
            "fees": fees, "markup": draw(st.sampled_from([0.0, 0.0, 0.005, 0.02])), "deposit": draw(st.sampled_from([1000.0, 100.0, 12345.0])),
            "space": ["box", -3.0, 3.0],
            # equivalent ways of giving the same input
            # (pandas timestamps only with whole-second latencies: pandas.Timedelta.total_seconds() is not the correctly
            #  rounded quotient, so an event exactly at t+latency could fall on either side of the float comparison)
            "time_type": draw(st.sampled_from(["datetime", "datetime", "timestamp"])) if lat % US == 0 else "datetime",
            "action_type": draw(st.sampled_from(["array64", "array64", "list", "tuple", "array32"])),
            "reward_by_name": draw(st.sampled_from([False, False, True]))}


# ------------------------------------------------------------------------------------- futures chains

CHAIN_SPANS = {
    # class: (start, end, max gap in days between timesteps = shorter than the roll window)
    "ES": ("2019-03", "2020-06", 3),
    "NK": ("2019-03", "2020-06", 4),
    "ZN": ("2019-03", "2020-06", 4),
    "VX": ("2019-01", "2019-12", 1),
}


def chain_for(cls_name, month=0):
    from tradingenv import contracts as C
    start, end, _ = CHAIN_SPANS[cls_name]
    return FutureChain(getattr(C, cls_name), start, end, month=month)


@st.composite
def chain_episode_cases(draw, tier="quick", classes=("ES", "NK", "ZN", "VX"), with_etf=True, max_points=9):
    cls_name = draw(st.sampled_from(list(classes)))
    month = draw(st.sampled_from([0, 0, 1]))
    start, end, maxgap = CHAIN_SPANS[cls_name]
    chain = chain_for(cls_name, month)
    # start a few days before the last trading date of one of the first listed contracts
    r = draw(st.integers(0, min(2, len(chain.contracts) - 2 - month)))
    ltd = chain.contracts[r].last_trading_date
    back = draw(st.integers(1, 6))
    # 23:59:00 grids let quotes inside the latency window cross midnight, i.e. cross a last-trading instant
    hour_us = draw(st.sampled_from([0, 0, 9 * 3600 * US + 1800 * US, 16 * 3600 * US, 86340 * US, 86340 * US]))
    first = us_of(datetime(ltd.year, ltd.month, ltd.day)) - back * 86400 * US + hour_us
    npts = draw(st.integers(4, max_points))
    gaps = [first] + [draw(st.integers(1, maxgap)) * 86400 * US for _ in range(npts - 1)]
    specs = [{"kind": "chain", "cls": cls_name, "start": start, "end": end, "month": month,
              "p0": draw(st.sampled_from([100.0, 2500.0, 16.0])), "mult": 1.0, "margin": 0.1, "s0": 0.0}]
    if with_etf and draw(st.booleans()):
        specs.append({"kind": "etf", "mult": 1.0, "margin": 0.1, "p0": 50.0, "s0": 0.0})
    n = len(specs)
    sp = st.sampled_from([0.0, 0.001, 0.01])
    bars = [[[draw(st.floats(0.97, 1.03)), draw(sp)] for _ in range(n)] for _ in range(npts)]
    ws = draw(st.lists(st.sampled_from([0.5, -0.5, 1.0, -1.0, 0.25, 0.0, 1.5]), min_size=1, max_size=4))
    actions = [[ws[k % len(ws)]] + [draw(st.sampled_from([0.0, 0.2, -0.2]))] * (n - 1) for k in range(npts - 1)]
    latency_us = draw(st.sampled_from([0, 0, 60 * US, 120 * US, 120 * US]))
    chain_extras = []
    if latency_us > 0:
        for gi in range(npts - 1):
            if draw(st.sampled_from([True, True, False])):
                off = draw(st.sampled_from([90 * US, 30 * US, latency_us, 1]))
                if off <= latency_us or draw(st.booleans()):
                    chain_extras.append([gi, off, 0, draw(st.floats(0.97, 1.03)), draw(sp)])
    return {"gaps": gaps, "contracts": specs, "bars": bars, "extras": [], "rates": [], "pings": [], "chain_extras": chain_extras,
            "latency_us": latency_us, "delay": draw(st.sampled_from([0, 0, 1])), "actions": actions,
            "reward": ["simple"], "fees": [0.0, draw(st.sampled_from([0.0, 0.0005]))], "markup": 0.0, "deposit": 1e6,
            "space": ["box", -3.0, 3.0], "threshold": draw(st.sampled_from([0.0, 0.0, 0.05, 0.5]))}
