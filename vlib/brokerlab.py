"""brokerlab: generated broker histories and an independent wealth ledger (C01, C03, C05, C12, C13).

A case is plain JSON:
  {"contracts": [{"kind": "uspot"|"umargin"|"etf"|"es"|"zn"|"nk", "mult": M, "margin": m, "p0": mid0, "s0": spread0}],
   "fees": [fixed, proportional], "deposit": D, "rate": r, "markup": mk,
   "ops": [["Q", ci, move, spread] | ["QF", ci, price, spread] | ["T", ci, mode, x] | ["M", ci|-1] |
           ["V", kind] | ["R", [w|null ...], measure, dt_seconds]]}
Op arguments are relative (fractions of NLV / of the position, contract index mod n) and are resolved
against the live state, so every sub-list of ops is again a valid history (Hypothesis shrinks it).

The ledger never reads Trade.cost_*, Broker._holdings_margins or _last_marking_to_market_price: it keeps
the quotes the harness itself sent, the quantities of the trades that were executed, and the fee schedule.
"""
import math
from datetime import datetime, timedelta

from hypothesis import strategies as st

from tradingenv.broker.broker import Broker, EndOfEpisodeError
from tradingenv.broker.fees import BrokerFees
from tradingenv.broker.rebalancing import Rebalancing
from tradingenv.broker.trade import Trade
from tradingenv.contracts import AbstractContract, Cash, Rate, ETF, ES, ZN, NK
from tradingenv.events import EventNBBO
from tradingenv.exchange import Exchange

T0 = datetime(2019, 1, 2, 9, 30)
QMIN = 1e-5          # post-trade positions are exactly zero or at least this (epsilon snap is 1e-7)


class UserSpot(AbstractContract):
    """User-defined fully-paid contract (paid in full, no margin), any multiplier."""
    cash_requirement = 1.0
    margin_requirement = 0.0

    def __init__(self, symbol, multiplier):
        self._symbol = symbol
        self._multiplier = multiplier

    @property
    def symbol(self):
        return self._symbol

    @property
    def multiplier(self):
        return self._multiplier


class UserMargined(AbstractContract):
    """User-defined margined contract (nothing paid upfront, margin requirement in (0, 1])."""
    cash_requirement = 0.0

    def __init__(self, symbol, multiplier, margin):
        self._symbol = symbol
        self._multiplier = multiplier
        self._margin = margin

    @property
    def symbol(self):
        return self._symbol

    @property
    def multiplier(self):
        return self._multiplier

    @property
    def margin_requirement(self):
        return self._margin


BUILTIN = {"etf": lambda i: ETF("A%d" % i), "es": lambda i: ES(2019 + i, 6), "zn": lambda i: ZN(2019 + i, 9),
           "nk": lambda i: NK(2019 + i, 12)}
BUILTIN_SPEC = {"etf": (1.0, 0.0), "es": (50.0, 0.1), "zn": (1000.0, 0.03), "nk": (5.0, 0.3)}


def make_contract(spec, i, swap=False):
    """Returns (contract, multiplier, margin requirement, is_margined). With swap=True a spot-like
    contract becomes a margined one of the same multiplier and vice versa (twin run)."""
    kind = spec["kind"]
    if kind in BUILTIN:
        mult, margin = BUILTIN_SPEC[kind]
        margined = margin > 0
        if not swap:
            return BUILTIN[kind](i), mult, margin, margined
        if margined:
            return UserSpot("S%d" % i, mult), mult, 0.0, False
        return UserMargined("F%d" % i, mult, spec["margin"]), mult, spec["margin"], True
    margined = (kind == "umargin") != swap
    if margined:
        return UserMargined("F%d" % i, spec["mult"], spec["margin"]), spec["mult"], spec["margin"], True
    return UserSpot("S%d" % i, spec["mult"]), spec["mult"], 0.0, False


class Ledger:
    """Independent wealth ledger: deposit + interest - fees + sum_c M_c (q_c * liq_c - sum dq * acq)."""

    def __init__(self, n, mults, deposit, fixed, prop):
        self.n = n
        self.mult = mults
        self.deposit = deposit
        self.fixed = fixed
        self.prop = prop
        self.q = [0.0] * n
        self.cost = [0.0] * n        # sum dq * acq
        self.bid = [float("nan")] * n
        self.ask = [float("nan")] * n
        self.interest = 0.0
        self.fees = 0.0
        self.traded = 0.0            # sum |traded notional|, for the tolerance scale

    def quote(self, i, bid, ask):
        self.bid[i] = bid
        self.ask[i] = ask

    def liq(self, i, q=None):
        q = self.q[i] if q is None else q
        return self.bid[i] if q >= 0 else self.ask[i]

    def acq(self, i, dq):
        return self.ask[i] if dq > 0 else self.bid[i]

    def trade(self, i, dq):
        px = self.acq(i, dq)
        notional = abs(px * dq * self.mult[i])
        fee = self.fixed + self.prop * notional
        self.q[i] += dq
        self.cost[i] += dq * px
        self.fees += fee
        self.traded += notional
        return px, fee

    def position_value(self, i):
        if self.q[i] == 0:
            return 0.0
        return self.q[i] * self.liq(i) * self.mult[i]

    def nlv(self):
        tot = self.deposit + self.interest - self.fees
        for i in range(self.n):
            if self.q[i] != 0 or self.cost[i] != 0:
                liqv = self.q[i] * self.liq(i) if self.q[i] != 0 else 0.0
                tot += self.mult[i] * (liqv - self.cost[i])
        return tot

    def scale(self):
        return abs(self.deposit) + self.traded + sum(abs(self.position_value(i)) for i in range(self.n)) + abs(self.interest)


class Lab:
    """Real Exchange + Broker driven side by side with the ledger."""

    def __init__(self, case, swap=False, quote_all=True):
        self.case = case
        specs = case["contracts"]
        self.n = len(specs)
        made = [make_contract(s, i, swap) for i, s in enumerate(specs)]
        self.contracts = [m[0] for m in made]
        self.mult = [m[1] for m in made]
        self.margin = [m[2] for m in made]
        self.margined = [m[3] for m in made]
        self.exchange = Exchange()
        self.rate_contract = Rate("R")
        fixed, prop = case["fees"]
        self.fees = BrokerFees(markup=case.get("markup", 0.0), interest_rate=self.rate_contract,
                               proportional=prop, fixed=fixed)
        self.cash = Cash()
        self.now = T0
        self.exchange.process_EventNBBO(EventNBBO(self.now, self.cash, 1.0, 1.0))
        r = case.get("rate", 0.0)
        self.exchange.process_EventNBBO(EventNBBO(self.now, self.rate_contract, r, r))
        self.broker = Broker(exchange=self.exchange, base_currency=self.cash, deposit=case["deposit"],
                             fees=self.fees)
        self.ledger = Ledger(self.n, self.mult, case["deposit"], fixed, prop)
        self.mid = [s["p0"] for s in specs]
        self.reb_time = T0
        if quote_all:
            for i, s in enumerate(specs):
                self.send_quote(i, s["p0"], s["s0"])

    # -- primitive actions -------------------------------------------------------------------
    def tick(self):
        self.now = self.now + timedelta(seconds=1)
        return self.now

    def send_quote(self, i, mid, spread, same_time=False):
        bid = mid * (1 - spread / 2)
        ask = mid * (1 + spread / 2)
        if not (bid > 0 and ask >= bid):      # rounding at tiny spreads
            bid = ask = mid
        self.mid[i] = mid
        # several quotes may carry the same timestamp (one NBBO per contract per tick, corrections)
        when = self.now if same_time else self.tick()
        self.exchange.process_EventNBBO(EventNBBO(when, self.contracts[i], bid, ask))
        self.ledger.quote(i, bid, ask)
        return bid, ask

    def send_raw_quote(self, i, bid, ask):
        self.exchange.process_EventNBBO(EventNBBO(self.tick(), self.contracts[i], bid, ask))
        self.ledger.quote(i, bid, ask)

    def resolve_trade(self, i, mode, x):
        """Signed quantity for a relative trade op, or 0.0 when nothing can be traded."""
        q = self.ledger.q[i]
        if mode == "open":
            ref = self.ledger.nlv()
            if not ref > 0:
                ref = self.case["deposit"]
            px = self.ledger.ask[i] if x > 0 else self.ledger.bid[i]
            dq = x * ref / (px * self.mult[i])
        elif mode == "reduce":
            dq = -q * x
        elif mode == "close":
            dq = -q
        elif mode == "flip":
            dq = -q * (1 + x)
        elif mode == "nearclose":
            # closes all but a remainder inside the documented snapping band (|q| < 1e-7 is zeroed by design)
            return (-q + math.copysign(3e-8, q)) if abs(q) > 1e-3 else 0.0
        elif mode == "abs":
            dq = x
        else:
            raise ValueError(mode)
        if dq == 0 or math.isnan(dq):
            return 0.0
        if 0 < abs(dq) < QMIN:
            dq = math.copysign(QMIN, dq)
        if 0 < abs(q + dq) < QMIN:
            dq = -q          # would land in the documented epsilon snapping band: close instead
        return dq

    def transact(self, i, dq):
        trade = self._transact(i, dq)
        if 0 < abs(self.ledger.q[i]) < 1e-7:
            self.ledger.q[i] = 0.0            # the documented epsilon snap
        return trade

    def _transact(self, i, dq):
        trade = Trade(time=self.tick(), contract=self.contracts[i], quantity=dq,
                      bid_price=self.exchange[self.contracts[i]].bid_price,
                      ask_price=self.exchange[self.contracts[i]].ask_price, broker_fees=self.fees)
        self.broker.transact(trade)
        return self.ledger.trade(i, dq)

    def rebalancing(self, targets, measure, dt, margin=0.0, fractional=True, order=None):
        self.reb_time = max(self.reb_time, self.now) + timedelta(seconds=max(1, int(dt)))
        self.now = self.reb_time
        idx = [i for i, w in enumerate(targets) if w is not None]
        if order:
            # the request may list the contracts in any order
            idx = sorted(idx, key=lambda i: (order[i % len(order)], i))
        cs = [self.contracts[i] for i in idx]
        ws = [targets[i] for i in idx]
        return Rebalancing(contracts=cs, allocation=ws, measure=measure, margin=margin,
                           fractional=fractional, time=self.reb_time)

    def index_of(self, contract):
        for i, c in enumerate(self.contracts):
            if c.symbol == contract.symbol:
                return i
        raise KeyError(contract)

    def apply_recorded_trades(self, reb):
        """Feed the trades the broker says it executed into the ledger (priced by the ledger)."""
        out = []
        for tr in reb.trades:
            i = self.index_of(tr.contract)
            px, fee = self.ledger.trade(i, tr.quantity)
            if 0 < abs(self.ledger.q[i]) < 1e-7:
                # Inside the documented epsilon band (Broker(epsilon=1e-7) zeroes such positions and its comment lists
                # the consequences as a known drawback). Targets are screened against it beforehand, but the interest
                # accrued by the rebalance itself can shrink the NLV they were screened against: such a history has
                # left the generated domain.
                self.ledger.q[i] = 0.0
                self.snapped = True
            out.append((i, tr.quantity, px, fee))
        return out

    def code_q(self, i):
        return self.broker.holdings_quantity.get(self.contracts[i], 0.0)


def context_consistent(res, lab, ctx, where):
    """Inside ONE snapshot: cash + posted margins + value of fully-paid positions == the NLV it reports."""
    led = lab.ledger
    cash = float(ctx.nr_contracts.get(lab.cash, 0.0))
    tot = cash + sum(float(ctx.margins.get(c, 0.0)) for c in lab.contracts)
    for i, c in enumerate(lab.contracts):
        q = float(ctx.nr_contracts.get(c, 0.0))
        if not lab.margined[i] and q != 0:
            tot += q * led.liq(i, q) * lab.mult[i]
    if not abs(tot - float(ctx.nlv)) <= 1e-9 * led.scale():
        res.fail("%s: the snapshot's cash %.12g + margins + fully-paid values = %.12g, but it reports NLV %.12g" % (where, cash, tot, float(ctx.nlv)))
        return False
    return True


def close(a, b, rel=1e-9, abs_=0.0):
    if math.isnan(a) or math.isnan(b):
        return math.isnan(a) and math.isnan(b)
    return abs(a - b) <= max(abs_, rel * max(abs(a), abs(b)))


# ----------------------------------------------------------------------------------------- strategies

DYADIC_PRICES = [2.0 ** k for k in range(-3, 11)]
MULTS = [0.1, 0.5, 1.0, 2.0, 10.0, 50.0, 1000.0]
DYADIC_MULTS = [0.25, 0.5, 1.0, 2.0, 8.0, 64.0]
MARGINS = [0.004, 0.02, 0.05, 0.1, 0.25, 0.3, 0.5, 1.0]


def spreads():
    return st.one_of(st.just(0.0), st.floats(1e-4, 0.05), st.sampled_from([0.0, 0.01, 0.02]))


@st.composite
def contract_specs(draw, dyadic=False, min_n=1, max_n=4, kinds=None, wide=False):
    n = draw(st.integers(min_n, max_n))
    specs = []
    for i in range(n):
        kind = draw(st.sampled_from(kinds or ["uspot", "uspot", "umargin", "umargin", "umargin", "etf", "es", "zn", "nk"]))
        mult = draw(st.sampled_from(DYADIC_MULTS if dyadic else MULTS))
        margin = draw(st.sampled_from([0.25, 0.5, 1.0] if dyadic else MARGINS))
        if dyadic:
            p0 = draw(st.sampled_from(DYADIC_PRICES))
            s0 = 0.0
        else:
            p0 = draw(st.one_of(st.sampled_from(DYADIC_PRICES), st.floats(0.05, 5000.0)))
            if wide and draw(st.integers(0, 3)) == 0:
                p0 = draw(st.one_of(st.floats(1e-3, 0.05), st.floats(5000.0, 1e6)))
            s0 = draw(spreads())
        specs.append({"kind": kind, "mult": mult, "margin": margin, "p0": p0, "s0": s0})
    return specs


def fee_schedules():
    return st.tuples(st.one_of(st.just(0.0), st.floats(0.0, 5.0)),
                     st.one_of(st.just(0.0), st.floats(0.0, 0.01)))


def trade_ops(n):
    ci = st.integers(0, n - 1)
    return st.one_of(
        st.tuples(st.just("T"), ci, st.just("open"), st.floats(-3.0, 3.0).filter(lambda x: abs(x) > 1e-3)),
        st.tuples(st.just("T"), ci, st.just("reduce"), st.floats(0.05, 0.95)),
        st.tuples(st.just("T"), ci, st.just("close"), st.just(0.0)),
        st.tuples(st.just("T"), ci, st.just("flip"), st.floats(0.1, 2.0)),
    )


def quote_ops(n):
    ci = st.integers(0, n - 1)
    same = st.sampled_from([False, False, False, True])     # same timestamp as the previous event
    return st.one_of(
        st.tuples(st.just("Q"), ci, st.floats(0.85, 1.15), spreads(), same),
        st.tuples(st.just("Q"), ci, st.floats(0.85, 1.15), spreads(), same),
        st.tuples(st.just("QF"), ci, st.floats(0.01, 1e5), spreads(), same),
    )


def rebalance_ops(n):
    w = st.one_of(st.none(), st.just(0.0), st.floats(-2.0, 2.0), st.floats(-0.5, 1.0))
    return st.one_of(
        st.tuples(st.just("R"), st.lists(w, min_size=n, max_size=n), st.just("weight"), st.integers(1, 10 ** 7)),
        st.tuples(st.just("R"), st.lists(st.one_of(st.none(), st.just(0.0), st.floats(-50.0, 50.0)), min_size=n, max_size=n),
                  st.just("nr-contracts"), st.integers(1, 10 ** 6)),
    )


@st.composite
def histories(draw, tier="quick", margined_bias=False, max_ops=40, near_close=False, wide=False):
    """wide=True: accounts of 5-12 contracts, up to 150 operations, prices from 1e-3 to 1e6 and deposits up to 1e10
    (the bounds of the default histories are a matter of cost, not of the code under test)."""
    dyadic = draw(st.integers(0, 5)) == 0
    kinds = ["umargin", "umargin", "umargin", "es", "zn", "nk", "uspot", "etf"] if margined_bias else None
    if wide:
        specs = draw(contract_specs(dyadic=dyadic, kinds=kinds, min_n=5, max_n=12, wide=True))
        max_ops = max(max_ops, 150) if max_ops >= 40 else max_ops       # (short histories stay short: C03 only widens the account)
    else:
        specs = draw(contract_specs(dyadic=dyadic, kinds=kinds, min_n=2 if margined_bias else 1))
    n = len(specs)
    if wide and not dyadic:
        deposit = draw(st.one_of(st.sampled_from([100.0, 1e4, 1e8]), st.floats(10.0, 1e6), st.floats(1e6, 1e10)))
    else:
        deposit = draw(st.sampled_from([1024.0, 4096.0])) if dyadic else draw(st.one_of(st.sampled_from([100.0, 1e4]), st.floats(10.0, 1e6)))
    fees = (0.0, 0.0) if dyadic else draw(fee_schedules())
    rate = 0.0 if dyadic else draw(st.one_of(st.just(0.0), st.floats(0.0, 0.2)))
    markup = 0.0 if dyadic else draw(st.one_of(st.just(0.0), st.floats(0.0, 0.02)))
    if dyadic:
        ci = st.integers(0, n - 1)
        op = st.one_of(
            st.tuples(st.just("QF"), ci, st.sampled_from(DYADIC_PRICES), st.just(0.0)),
            st.tuples(st.just("QR"), ci, st.sampled_from(DYADIC_PRICES), st.sampled_from([1.0, 0.9375, 0.875, 0.75, 0.5])),
            st.tuples(st.just("T"), ci, st.just("abs"), st.sampled_from([-8.0, -2.0, -1.0, -0.5, 0.5, 1.0, 2.0, 4.0])),
            st.tuples(st.just("T"), ci, st.just("close"), st.just(0.0)),
            st.tuples(st.just("M"), st.integers(-1, n - 1)),
            st.tuples(st.just("V"), st.sampled_from(["nlv", "liq", "notional", "weights", "context"])),
        )
    else:
        extra = [st.tuples(st.just("T"), st.integers(0, n - 1), st.just("nearclose"), st.just(0.0))] if near_close else []
        op = st.one_of(
            *extra,
            quote_ops(n), quote_ops(n), trade_ops(n), trade_ops(n), trade_ops(n),
            st.tuples(st.just("M"), st.integers(-1, n - 1)),
            st.tuples(st.just("V"), st.sampled_from(["nlv", "liq", "notional", "weights", "context"])),
            rebalance_ops(n),
        )
    ops = draw(st.lists(op, min_size=40 if (wide and max_ops >= 150) else 1, max_size=max_ops))
    if not dyadic and draw(st.integers(0, 2)) == 0:
        # motif: open, move the quote, then add to / flip the same position under a (usually positive) spread
        ci = draw(st.integers(0, n - 1))
        x = draw(st.floats(0.1, 1.5)) * draw(st.sampled_from([-1.0, 1.0]))
        y = draw(st.floats(0.1, 1.5)) * (1.0 if x > 0 else -1.0)
        second = draw(st.sampled_from([("T", ci, "open", y), ("T", ci, "open", y), ("T", ci, "flip", abs(y))]))
        motif = [("Q", ci, 1.0, draw(st.sampled_from([0.0, 0.01, 0.03]))), ("T", ci, "open", x),
                 ("Q", ci, draw(st.floats(0.9, 1.1)), draw(st.sampled_from([0.001, 0.01, 0.03]))), second]
        ops = motif + list(ops)
    if not dyadic and draw(st.sampled_from([False, False, False, True])):
        # motif: a valuation, then a second quote carrying the SAME timestamp as the previous event, then a valuation
        ci = draw(st.integers(0, n - 1))
        ops = list(ops) + [("V", "nlv"), ("Q", ci, draw(st.floats(0.9, 1.1)), draw(st.sampled_from([0.0, 0.01])), True),
                           ("V", draw(st.sampled_from(["nlv", "liq", "context"])))]
    return {"contracts": specs, "fees": list(fees), "deposit": deposit, "rate": rate, "markup": markup,
            "dyadic": dyadic, "ops": [list(o) for o in ops]}


# ------------------------------------------------------------------------------------ history interpreter

def history_steps(case, oracle, res, out, swap=False, nlv_path=None):
    """Generator: interprets case["ops"] against a real broker and the ledger, yielding after every executed op (so that
    several accounts living in one process can be driven in alternation). out["lab"], out["stats"] are filled on entry.

    oracle == "c01": after EVERY op the broker's NLV equals the ledger (self-financing identity).
    oracle == "c05": margin law / NLV decomposition / weights at the observation points the property
                     names (after a valuation or mark-to-market: all contracts; after a trade: the traded one).
    nlv_path: optional list that receives the ledger-independent broker NLV after each op (twin runs).
    """
    lab = Lab(case, swap=swap)
    out["lab"] = lab
    led = lab.ledger
    br = lab.broker
    n = lab.n
    stats = {"trades": 0, "adds_under_spread": 0, "flips": 0, "mult_spot_trades": 0, "rebalances": 0,
             "insolvent": False, "margined_open_max": 0, "short_margined": 0, "quote_moves_between": 0}
    out["stats"] = stats
    last_trade_quote_version = [None] * n
    quote_version = [0] * n

    def check_c01(tag):
        code = br.net_liquidation_value(raise_if_broke=False)
        model = led.nlv()
        tol = 1e-9 * led.scale()
        if nlv_path is not None:
            nlv_path.append(code)
        if not abs(code - model) <= tol:
            res.fail("self-financing broken after op %s: broker NLV %.12g, ledger %.12g (diff %.3g, tol %.3g)" % (
                tag, code, model, code - model, tol))
            return False
        if model <= 0:
            stats["insolvent"] = True
        return True

    def check_positions(tag):
        for i in range(n):
            if not close(lab.code_q(i), led.q[i], rel=1e-12, abs_=1e-12):
                res.fail("position of contract %d after op %s: broker %r, executed trades sum to %r" % (
                    i, tag, lab.code_q(i), led.q[i]))
                return False
        return True

    def check_margins(which, tag):
        margins = br.holdings_margins
        for i in which:
            c = lab.contracts[i]
            got = margins.get(c, 0.0)
            q = led.q[i]
            if lab.margined[i] and q != 0:
                want = lab.margin[i] * lab.mult[i] * abs(q) * led.liq(i)
            else:
                want = 0.0
            if got < 0:
                res.fail("negative margin %r for contract %d after op %s" % (got, i, tag))
                return False
            if q == 0 and abs(got) > 1e-12:
                res.fail("contract %d is flat after op %s but %.6g of margin is still posted" % (i, tag, got))
                return False
            # (the posted margin is what is left after the variation margin - an amount on the account's money scale - is
            #  added and the excess swept to cash: it carries that scale's rounding, ~1e-16 x scale, however small it is)
            if not close(got, want, rel=1e-9, abs_=1e-9 * led.scale() if want == 0 else 1e-12 * led.scale()):
                res.fail("margin of contract %d after op %s: posted %.12g, requirement x multiplier x |q| x liq = %.12g" % (
                    i, tag, got, want))
                return False
        return True

    def check_decomposition(tag):
        """cash + sum margins + liquidation value of fully paid positions == reported NLV; weights; notional."""
        nlv = br.net_liquidation_value(raise_if_broke=False)
        hq = br.holdings_quantity
        margins = br.holdings_margins
        cash = hq.get(lab.cash, 0.0)
        tot = cash + sum(margins.get(c, 0.0) for c in lab.contracts)
        for i in range(n):
            if not lab.margined[i] and led.q[i] != 0:
                tot += led.q[i] * led.liq(i) * lab.mult[i]
        tol = 1e-9 * led.scale()
        if not abs(tot - nlv) <= tol:
            res.fail("NLV decomposition after op %s: cash + margins + fully-paid values = %.12g, reported NLV %.12g" % (tag, tot, nlv))
            return False
        if not check_margins(range(n), tag):
            return False
        notional = br.holdings_values("notional")
        for i in range(n):
            want = led.q[i] * led.liq(i) * lab.mult[i] if led.q[i] != 0 else 0.0
            got = notional.get(lab.contracts[i], 0.0)
            if not close(got, want, rel=1e-9, abs_=1e-12):
                res.fail("holdings_values('notional') of contract %d after op %s: %.12g, expected q x liq x M = %.12g" % (i, tag, got, want))
                return False
        if nlv > 1e-6 * led.scale():
            weights = br.holdings_weights()
            ctx = br.context()
            for i in range(n):
                want = (led.q[i] * led.liq(i) * lab.mult[i] / nlv) if led.q[i] != 0 else 0.0
                got = weights.get(lab.contracts[i], 0.0)
                if not close(got, want, rel=1e-9, abs_=1e-12):
                    res.fail("weight of contract %d after op %s: %.12g, expected q x liq x M / NLV = %.12g" % (i, tag, got, want))
                    return False
                if not close(ctx.weights.get(lab.contracts[i], 0.0), got, rel=1e-12, abs_=1e-15):
                    res.fail("context().weights differs from holdings_weights() for contract %d after op %s" % (i, tag))
                    return False
                if ctx.nr_contracts.get(lab.contracts[i], 0.0) != lab.code_q(i):
                    res.fail("context().nr_contracts differs from holdings_quantity for contract %d after op %s" % (i, tag))
                    return False
                if not close(ctx.margins.get(lab.contracts[i], 0.0), br.holdings_margins.get(lab.contracts[i], 0.0), rel=1e-12, abs_=1e-12):
                    res.fail("context().margins differs from holdings_margins for contract %d after op %s" % (i, tag))
                    return False
            if not close(ctx.nlv, nlv, rel=1e-12):
                res.fail("context().nlv %.12g differs from net_liquidation_value() %.12g after op %s" % (ctx.nlv, nlv, tag))
                return False
            if not context_consistent(res, lab, ctx, "context() after op %s" % tag):
                return False
        return True

    for k, op in enumerate(case["ops"]):
        tag = "#%d %s" % (k, op[0])
        kind = op[0]
        if kind in ("Q", "QF", "QR"):
            i = op[1] % n
            same = len(op) > 4 and bool(op[4])
            if kind == "Q":
                lab.send_quote(i, min(max(lab.mid[i] * op[2], 1e-3), 1e7), op[3], same)
            elif kind == "QF":
                lab.send_quote(i, op[2], op[3], same)
            else:
                lab.mid[i] = op[2]
                lab.send_raw_quote(i, op[2] * op[3], op[2])
            quote_version[i] += 1
        elif kind == "T":
            i = op[1] % n
            dq = lab.resolve_trade(i, op[2], op[3])
            if dq == 0.0:
                continue
            q0 = led.q[i]
            lab.transact(i, dq)
            stats["trades"] += 1
            spread_on = led.ask[i] > led.bid[i]
            if q0 != 0 and q0 * dq > 0 and spread_on:
                stats["adds_under_spread"] += 1
                if last_trade_quote_version[i] is not None and last_trade_quote_version[i] != quote_version[i]:
                    stats["quote_moves_between"] += 1
            if q0 != 0 and (q0 + dq) * q0 < 0:
                stats["flips"] += 1
            if not lab.margined[i] and lab.mult[i] != 1.0:
                stats["mult_spot_trades"] += 1
            if lab.margined[i] and led.q[i] < 0:
                stats["short_margined"] += 1
            last_trade_quote_version[i] = quote_version[i]
            res.tag("T-%s-%s%s" % (op[2], "margined" if lab.margined[i] else "spot", "-spread" if spread_on else ""))
            if not check_positions(tag):
                return
            if oracle == "c05" and not check_margins([i], tag):
                return
        elif kind == "M":
            i = op[1]
            if i < 0:
                br.marking_to_market()
                if oracle == "c05" and not check_margins(range(n), tag):
                    return
            else:
                i = i % n
                br.marking_to_market(lab.contracts[i])
                if oracle == "c05" and not check_margins([i], tag):
                    return
        elif kind == "V":
            what = op[1]
            solvent = led.nlv() > 1e-6 * led.scale()
            if what == "nlv":
                br.net_liquidation_value(raise_if_broke=False)
            elif what == "liq":
                br.holdings_values("liquidation")
                br.net_liquidation_value(raise_if_broke=False)
            elif what == "notional":
                br.holdings_values("notional")
                br.net_liquidation_value(raise_if_broke=False)
            elif solvent and what == "weights":
                br.holdings_weights()
            elif solvent and what == "context":
                br.context()
            else:
                br.net_liquidation_value(raise_if_broke=False)
            if oracle == "c05" and not check_decomposition(tag):
                return
        elif kind == "R":
            targets = list(op[1])[:n] + [None] * max(0, n - len(op[1]))
            # Targets whose position would fall inside the documented epsilon snapping band
            # (|q| < 1e-7 is zeroed by design) are outside the generated domain: make them 0.
            ref = led.nlv()
            for j, w in enumerate(targets):
                if w is None or w == 0:
                    continue
                if op[2] == "weight":
                    px = led.ask[j] if w > 0 else led.bid[j]
                    qt = w * ref / (px * lab.mult[j]) if ref > 0 else 0.0
                else:
                    qt = w
                if abs(qt) < QMIN:
                    targets[j] = 0.0
            reb = lab.rebalancing(targets, op[2], op[3])
            broke_before = None
            nlv_at_decision = led.nlv()
            q_at_decision = [lab.code_q(j) for j in range(n)]
            len_at_decision = len(br.track_record)
            try:
                br.rebalance(reb)
            except EndOfEpisodeError:
                broke_before = True
            if isinstance(reb.profit_on_idle_cash, float) or hasattr(reb.profit_on_idle_cash, "__float__"):
                nlv_at_decision += float(reb.profit_on_idle_cash)      # the valuation follows the accrual
            if oracle == "c09" and nlv_at_decision < -1e-9 * led.scale():
                if not broke_before:
                    res.fail("a rebalance was executed on an account whose NLV is %.12g <= 0 (op %s)" % (nlv_at_decision, tag))
                    return
                if [lab.code_q(j) for j in range(n)] != q_at_decision or len(br.track_record) != len_at_decision:
                    res.fail("a rebalance refused for insolvency changed positions or the track record (op %s)" % tag)
                    return
                res.tag("rebalance-refused-while-broke")
            if isinstance(reb.profit_on_idle_cash, float) or hasattr(reb.profit_on_idle_cash, "__float__"):
                led.interest += float(reb.profit_on_idle_cash)
            if broke_before and reb.context_pre is not Ellipsis and isinstance(reb.trades, list):
                # Solvent before trading, EndOfEpisodeError raised by the post-trade valuation: the
                # trades were executed and their costs alone exhausted the account.
                lab.apply_recorded_trades(reb)
                if getattr(lab, "snapped", False):
                    res.excluded = "position-inside-documented-epsilon-band"
                    return
                stats["trades"] += len(reb.trades)
                res.tag("ruined-by-trading-costs")
                if led.nlv() > 1e-9 * led.scale():
                    res.fail("post-trade valuation raised EndOfEpisodeError although ledger NLV is %.12g > 0 (op %s)" % (led.nlv(), tag))
                    return
                stats["insolvent"] = True
                if not check_positions(tag):
                    return
            elif broke_before:
                # refused: the account is (by the broker's own valuation) not solvent; ledger must agree
                if led.nlv() > 1e-9 * led.scale():
                    res.fail("rebalance refused with EndOfEpisodeError although ledger NLV is %.12g > 0 (op %s)" % (led.nlv(), tag))
                    return
                stats["insolvent"] = True
            else:
                if oracle == "c05" and not context_consistent(res, lab, reb.context_pre, "context_pre of rebalance %s" % tag):
                    return
                lab.apply_recorded_trades(reb)
                if getattr(lab, "snapped", False):
                    res.excluded = "position-inside-documented-epsilon-band"
                    return
                if oracle == "c05" and not context_consistent(res, lab, reb.context_post, "context_post of rebalance %s" % tag):
                    return
                stats["rebalances"] += 1
                stats["trades"] += len(reb.trades)
                res.tag("R-%s" % op[2])
                if not check_positions(tag):
                    return
                if oracle == "c05":
                    # a rebalance ends with a valuation (context_post): every contract is current
                    if not check_decomposition(tag):
                        return
        else:
            raise ValueError("unknown op %r" % (op,))
        if oracle == "c09":
            model = led.nlv()
            band = 1e-9 * led.scale()
            if abs(model) > band:
                try:
                    got = br.net_liquidation_value()
                    raised = False
                except EndOfEpisodeError:
                    raised = True
                if raised != (model < 0):
                    res.fail("after op %s ledger NLV is %.12g but net_liquidation_value() %s" % (
                        tag, model, "raised EndOfEpisodeError" if raised else "returned %.12g" % got))
                    return
                quiet = br.net_liquidation_value(raise_if_broke=False)
                if not abs(quiet - model) <= band:
                    res.fail("after op %s net_liquidation_value(raise_if_broke=False) = %.12g, ledger %.12g" % (tag, quiet, model))
                    return
                if model < 0:
                    stats["insolvent"] = True
        open_margined = sum(1 for i in range(n) if lab.margined[i] and led.q[i] != 0)
        stats["margined_open_max"] = max(stats["margined_open_max"], open_margined)
        if oracle == "c01" and not check_c01(tag):
            return
        if oracle == "c01-sparse" and kind == "V" and op[1] == "nlv" and not check_c01(tag):
            return
        yield k
    if oracle == "c01-sparse":
        check_c01("end of history")
    return



def run_history(case, oracle, res, swap=False, nlv_path=None):
    """Interprets the whole history (see history_steps). Returns (lab, stats)."""
    out = {}
    for _ in history_steps(case, oracle, res, out, swap=swap, nlv_path=nlv_path):
        pass
    return out["lab"], out["stats"]


@st.composite
def ruin_histories(draw, tier="quick"):
    """Leveraged or short accounts driven through adverse quotes (C09, broker level)."""
    specs = draw(contract_specs(max_n=2))
    n = len(specs)
    ci = st.integers(0, n - 1)
    op = st.one_of(
        st.tuples(st.just("Q"), ci, st.floats(0.4, 1.9), st.sampled_from([0.0, 0.0, 0.01]), st.sampled_from([False, False, True])),
        st.tuples(st.just("Q"), ci, st.floats(0.4, 1.9), st.sampled_from([0.0, 0.02]), st.sampled_from([False, False, True])),
        st.tuples(st.just("V"), st.just("nlv")),
        # decisions after long periods on borrowed cash: the interest charged at the decision may exhaust the account
        st.tuples(st.just("R"), st.lists(st.one_of(st.none(), st.floats(-2.0, 2.0)), min_size=n, max_size=n), st.just("weight"),
                  st.integers(10 ** 7, 3 * 10 ** 8)),
        st.tuples(st.just("T"), ci, st.just("open"), st.floats(1.5, 5.0).flatmap(lambda x: st.sampled_from([x, -x]))),
        st.tuples(st.just("T"), ci, st.just("reduce"), st.floats(0.05, 0.95)),
        st.tuples(st.just("V"), st.sampled_from(["nlv", "liq", "weights", "context"])),
        st.tuples(st.just("M"), st.integers(-1, n - 1)),
        rebalance_ops(n),
    )
    first = ("T", draw(ci), "open", draw(st.floats(1.5, 5.0)) * draw(st.sampled_from([-1.0, 1.0])))
    ops = [first] + draw(st.lists(op, min_size=2, max_size=25))
    return {"contracts": specs, "fees": list(draw(fee_schedules())), "deposit": draw(st.sampled_from([100.0, 1000.0, 5e4])),
            "rate": draw(st.sampled_from([0.0, 0.0, 0.05, 0.1])), "markup": draw(st.sampled_from([0.0, 0.01])), "dyadic": False,
            "ops": [list(o) for o in ops]}
