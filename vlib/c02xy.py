"""c02xy: the tabular clause of C02 (no look-ahead through TradingEnvXY).

"altering rows of the feature or price tables dated after t (with the transformer and reward scale
fitted on data up to some date <= t) changes no output up to t."

A case is an xylab case (see vlib/xylab.py) plus

    cut_q      0..999    which step date of the episode is the cut t: index cut_q*len(eligible)//1000 among the
                         eligible step dates (every step date but the last one whose offset is >= the earliest valid
                         transformer_end, see te_min)
    cut_skip   0..3      the first cut_skip eligible step dates are avoided when later ones exist (a cut at the reset or
                         at the first step has no trade before it)
    cut_pref   'any' | 'x-gap' | 'y-nan'   'x-gap' restricts the eligible dates to those at which the input feature table
                         has no row or a NaN cell (fill patterns at the cut), 'y-nan' to those at which a price is
                         missing, when there are any
    te_mode    'at-t' (transformer_end = t, time of day included) | 'day-before' | 'te-min' (earliest valid) | 'between'
    te_q       0..999    position of transformer_end between te_min and the date of t for te_mode 'between'
    np_seed    numpy seed set right before every reset (the start of an episode of `episode_length` steps is sampled)
    perturb    {'seed': int, 'rows': 'all' | 'next' (only rows dated in (t, next step date]),
                'x': 'scale' | 'shift' | 'noise' | 'mixed', 'x_mag': 3 | 30 | 300,
                'y': 'cells' | 'level' | 'both', 'rate': bool}
    The case's own `transformer_end` and `fold2` are ignored (transformer_end is resolved from te_mode: the
    property only speaks about a transformer fitted on data dated <= t).

run_xy(case):
  1. T1 = xylab.tables_from_case(case). A probe environment (same tables, transformer None) is run to the end of the
     episode with the case's weights (zero for assets without a quote): it yields the step dates and the action list.
  2. t and transformer_end are resolved; T2 = T1 with every row dated > t rewritten: finite features -> other finite
     values (scaled / shifted / replaced, 3 to 300 times the column scale), prices -> other positive prices, rates ->
     other rates in (-0.02, 0.2). NaN cells stay NaN and the labels are untouched, so the extents of the tables, the
     first / last valid rows and the fill patterns up to t are those of T1.
  3. env1 = build_env(case, T1), env2 = build_env(case, T2); both are reset (same numpy seed) and receive the same
     actions for every call landing at or before t. Compared bitwise: observation, reward, done, executed trades,
     holdings, NLV, clock, quotes in the exchange (assets and rate), track-record entry of every call; then the whole track record, the recorded state history,
     env.X.loc[:t], env.Y.loc[:t] and the reward scale.
Nothing after t is executed or looked at.
"""
import math

import numpy as np
import pandas as pd
from hypothesis import strategies as st

from vlib.runner import Result
from vlib import xylab
from tradingenv.contracts import Rate

RULE = ("xy: an xylab case (calendar NYSE/LSE/SSE/24-7, Y 30-150 rows x 1-3 assets with NaN cells and runs, X 1-4 features on the "
        "same / shifted / sparser index with NaNs, rate same/sparse/shifted/None, window 1-30 biased <= 6, stride, transformer "
        "None/z-score/yeo-johnson(10%), clip, spread, start/end bounds, folds, episode_length with a seeded start, steps_delay 0/1, "
        "small in-bounds weights), a cut t drawn among the step dates of the episode but the last (optionally one where the "
        "feature table has a gap), transformer_end = t / the day before / the earliest valid date / in between, and a generated "
        "rewrite of every row dated > t (or only of the rows of the next step) of X (finite -> scaled, shifted or replaced by "
        "3-300 column scales), Y (positive -> other positive) and the rate (other values in (-0.02, 0.2)); NaN cells and labels "
        "unchanged. Oracle (metamorphic twin): bitwise equality of everything returned or recorded by the calls landing at or "
        "before t, of env.X.loc[:t], env.Y.loc[:t] and of the reward scale. "
        "Non-trivial = a rewritten finite feature and a rewritten price dated in (t, next step date], a trade with non-zero "
        "quantity at or before t, and (transformer != None or window >= 2).")
ASSUMPTIONS = [
    "bitwise comparison (ndarray.tobytes, float.hex); nothing after t is executed",
    "transformer_end <= t always (for a later transformer_end the property does not apply); the default transformer_end "
    "(= end) is therefore never used",
    "perturbations keep NaN cells, index labels, 0 < price and -0.02 <= rate < 0.2, so start/end bounds, table extents and "
    "the rows on which steps occur are the same for both tables",
    "step dates and actions come from a probe run of the same tables with transformer None; both twins replay that action list",
    "only the first episode of the case is run (fold2 ignored)",
]


# ----------------------------------------------------------------------------------------- generator

def te_min(case):
    """Earliest integer offset such that X.loc[:te] holds rows 3..7 of X and Y.loc[:te] three returns
    of one asset (same rule as xylab.cases, recomputed from the finished case)."""
    y_days, n = case["y_days"], len(case["y_days"])
    nan_cells = set(map(tuple, case["y_nan"]))
    best = None
    for c in range(case["ny"]):
        rets = [y_days[i] for i in range(1, n) if (i, c) not in nan_cells and (i - 1, c) not in nan_cells]
        if len(rets) >= 3 and (best is None or rets[2] < best):
            best = rets[2]
    if best is None:
        best = y_days[-1]
    return math.ceil(max(best, case["x_days"][7]))


@st.composite
def cases(draw, tier="quick"):
    c = draw(xylab.cases(tier))
    c["fold2"] = None
    c["transformer_end"] = None       # resolved by run_xy from te_mode
    if not any(c["weights"][0]):
        c["weights"][0][0] = 0.25          # max_long >= 0.5 in every xylab case
    c["cut_q"] = draw(st.one_of(st.integers(0, 999), st.integers(0, 999), st.integers(0, 999), st.just(999)))
    c["cut_skip"] = draw(st.sampled_from([0, 1, 2, 2, 3, 3]))
    c["cut_pref"] = draw(st.sampled_from(["any", "any", "x-gap", "x-gap", "y-nan"]))
    c["te_mode"] = draw(st.sampled_from(["at-t", "at-t", "day-before", "te-min", "between"]))
    c["te_q"] = draw(st.integers(0, 999))
    c["np_seed"] = draw(st.integers(0, 2 ** 31 - 1))
    c["perturb"] = {
        "seed": draw(st.integers(0, 2 ** 31 - 1)),
        "rows": draw(st.sampled_from(["all", "all", "all", "next"])),
        "x": draw(st.sampled_from(["scale", "shift", "noise", "mixed"])),
        "x_mag": draw(st.sampled_from([3.0, 30.0, 300.0])),
        "y": draw(st.sampled_from(["cells", "level", "both"])),
        "rate": draw(st.sampled_from([True, True, True, False])),
    }
    return c


# ----------------------------------------------------------------------------------------- perturbation

def perturbed_tables(case, T1, t, t_next):
    """T2 and the number of rewritten cells dated in (t, t_next] per table."""
    p = case["perturb"]
    seed = p["seed"]
    hi = t_next if p["rows"] == "next" else None

    def rows_of(index):
        sel = index > t
        if hi is not None:
            sel &= index <= hi
        return np.asarray(sel)

    def in_next(index):
        return np.asarray((index > t) & (index <= t_next))

    counts = {"x_next": 0, "y_next": 0, "rate_next": 0, "x": 0, "y": 0, "rate": 0}
    # ---- features
    X = T1["X"].copy()
    xv = X.values.copy()
    m = len(X)
    sel = rows_of(X.index)
    nxt = in_next(X.index)
    for j in range(xv.shape[1]):
        S = max(case["x_scale"][j], 1e-3)
        off = case["x_offset"][j]
        u = xylab.uniforms(seed, 50 + j, m)
        v = xylab.uniforms(seed, 60 + j, m)
        b = xylab.bell(seed, 70 + j, m)
        mag = p["x_mag"]
        old = xv[:, j]
        sign = np.where(v < 0.5, -1.0, 1.0)
        scaled = old * (sign * mag * (0.5 + u))
        shifted = old + sign * mag * S * (0.5 + u)
        noise = b * mag * S + off + sign * mag * S
        if p["x"] == "scale":
            new = scaled
        elif p["x"] == "shift":
            new = shifted
        elif p["x"] == "noise":
            new = noise
        else:
            k = np.floor(3 * xylab.uniforms(seed, 80 + j, m))
            new = np.where(k == 0, scaled, np.where(k == 1, shifted, noise))
        new = np.where(new == old, old + mag * S, new)
        cell = sel & np.isfinite(old)
        xv[cell, j] = new[cell]
        counts["x"] += int(cell.sum())
        counts["x_next"] += int((cell & nxt).sum())
    X2 = pd.DataFrame(xv, index=X.index, columns=X.columns)
    # ---- prices
    Y = T1["Y"]
    yv = Y.values.copy()
    n = len(Y)
    sel = rows_of(Y.index)
    nxt = in_next(Y.index)
    for j in range(yv.shape[1]):
        u = xylab.uniforms(seed, 90 + j, n)
        level = 3.0 if xylab.uniforms(seed, 95 + j, 1)[0] < 0.5 else 0.25
        old = yv[:, j]
        f = np.exp(1.4 * u - 0.7)
        if p["y"] == "level":
            f = np.full(n, level)
        elif p["y"] == "both":
            f = f * level
        new = old * f
        new = np.where(new == old, old * 1.5, new)
        cell = sel & np.isfinite(old)
        yv[cell, j] = new[cell]
        counts["y"] += int(cell.sum())
        counts["y_next"] += int((cell & nxt).sum())
    Y2 = pd.DataFrame(yv, index=Y.index, columns=Y.columns)
    # ---- rate
    rate2 = None
    if T1["rate"] is not None:
        r = T1["rate"]
        rv = r.values.copy()
        if p["rate"]:
            k = len(r)
            sel = rows_of(r.index)
            nxt = in_next(r.index)
            new = -0.02 + 0.22 * xylab.uniforms(seed, 99, k)
            new = np.where(new == rv, 0.1, new)
            rv[sel] = new[sel]
            counts["rate"] = int(sel.sum())
            counts["rate_next"] = int((sel & nxt).sum())
        rate2 = pd.Series(rv, index=r.index, name=r.name)
    return {"X": X2, "Y": Y2, "rate": rate2}, counts


# ----------------------------------------------------------------------------------------- traces

def hexf(x):
    try:
        return float(x).hex()
    except (TypeError, ValueError):
        return repr(x)


def obs_key(obs):
    a = np.asarray(obs)
    return (str(a.dtype), tuple(a.shape), a.tobytes().hex())


def entry_key(reb):
    if reb is None:
        return None
    return {
        "time": str(reb.time),
        "allocation": sorted((c.symbol, hexf(v)) for c, v in reb.allocation.items()),
        "profit_on_idle_cash": hexf(reb.profit_on_idle_cash),
        "trades": [(tr.contract.symbol, hexf(tr.quantity), hexf(tr.acq_price), hexf(tr.cost_of_commissions)) for tr in reb.trades],
        "pre_nlv": hexf(reb.context_pre.nlv),
        "post_nlv": hexf(reb.context_post.nlv),
    }


def snapshot(env, obs, reward, done, info, contracts):
    br = env.broker
    try:
        nlv = hexf(br.net_liquidation_value(raise_if_broke=False))
    except Exception as exc:  # noqa
        nlv = "raises:" + type(exc).__name__
    ntr = len(br.track_record)
    return {
        "observation": obs_key(obs),
        "reward": None if reward is None else hexf(reward),
        "done": bool(done),
        "executed": entry_key(info.get("_rebalancing")) if info else None,
        "holdings": sorted((c.symbol, hexf(q)) for c, q in br.holdings_quantity.items()),
        "nlv": nlv,
        "now": str(env.now()),
        "quotes": [(c.symbol, hexf(env.exchange[c].bid_price), hexf(env.exchange[c].ask_price)) for c in contracts],
        "track_record_len": ntr,
        "track_record_last": entry_key(br.track_record[-1]) if ntr else None,
    }


def reset_env(env, case):
    np.random.seed(case["np_seed"])
    return env.reset() if case["folds"] is None else env.reset(case["fold"])


def probe_run(case, tables):
    """Step dates of the episode and the actions (c18's rule: the case's weights, zero where no quote)."""
    env = xylab.build_env(dict(case, transformer=None, transformer_end=te_min(case)), tables)
    contracts = list(env.Y.columns)
    reset_env(env, case)
    dates = [env.now()]
    actions = []
    done = env._done
    k = 0
    while not done:
        w = np.array(case["weights"][k % len(case["weights"])], dtype=float)
        for i, contract in enumerate(contracts):
            if np.isnan(env.exchange[contract].bid_price):
                w[i] = 0.0
        k += 1
        actions.append(w.tolist())
        done = env.step(w)[2]
        dates.append(env.now())
    return dates, actions


def twin_run(env, case, actions, ncalls):
    """reset + (ncalls - 1) steps. Returns the trace; an exception ends it with an 'exception' entry."""
    trace = []
    contracts = list(env.Y.columns) + [Rate(xylab.RATE_NAME if case["rate_days"] is not None else "Zero Rate")]
    try:
        obs = reset_env(env, case)
    except Exception as exc:  # noqa
        return [{"exception": "%s: %s" % (type(exc).__name__, str(exc)[:120])}]
    trace.append(snapshot(env, obs, None, env._done, {}, contracts))
    for a in actions[:ncalls - 1]:
        if env._done:
            break
        try:
            obs, reward, done, info = env.step(np.array(a, dtype=float))
        except Exception as exc:  # noqa
            trace.append({"exception": "%s: %s" % (type(exc).__name__, str(exc)[:120])})
            break
        trace.append(snapshot(env, obs, reward, done, info, contracts))
    return trace


def frame_key(df, t):
    sub = df.loc[:t]
    return ([str(i) for i in sub.index], [str(c) for c in sub.columns], np.ascontiguousarray(sub.values, dtype=float).tobytes().hex())


def history_key(env, t):
    out = []
    for k, v in env.state.history.items():
        out.append((str(k), obs_key(v)))
    return out


def bucket(w):
    return "window=1" if w == 1 else "window=2" if w == 2 else "window=3" if w == 3 else \
        "window=4-6" if w <= 6 else "window=7-30"


def offset_of(case, ts):
    return (pd.Timestamp(ts) - pd.Timestamp(case["y0"])).total_seconds() / 86400.0


# ----------------------------------------------------------------------------------------- the check

def run_xy(case):
    res = Result()
    T1 = xylab.tables_from_case(case)
    dates, actions = probe_run(case, T1)
    tmin = te_min(case)
    res.tag("transformer=%s" % case["transformer"], bucket(case["window"]),
            "steps_delay=%d" % case["steps_delay"], "rate=%s" % ("none" if case["rate_days"] is None else "given"),
            "x=" + case["x_mode"])
    if case["episode_length"] is not None:
        res.tag("episode-length")
    if case["folds"] is not None:
        res.tag("fold=" + case["fold"])
    if case["start"] is not None or case["end"] is not None:
        res.tag("start/end-bound")
    if case.get("intraday"):
        res.tag("intraday")
    # ---- the cut
    eligible = [j for j in range(len(dates) - 1) if offset_of(case, dates[j]) >= tmin]
    if not eligible:
        res.excluded = "no step date but the last at or after the earliest valid transformer_end"
        return res
    Xin = T1["X"]

    def gap_at(ts):
        return ts not in Xin.index or bool(np.isnan(Xin.loc[ts].values).any())

    Yin = T1["Y"]

    def price_nan_at(ts):
        return ts in Yin.index and bool(np.isnan(Yin.loc[ts].values).any())

    skip = case["cut_skip"]
    eligible = eligible[skip:] if len(eligible) > skip else eligible[-1:]
    if case["cut_pref"] in ("x-gap", "y-nan"):
        pick = gap_at if case["cut_pref"] == "x-gap" else price_nan_at
        gaps = [j for j in eligible if pick(dates[j])]
        if gaps:
            eligible = gaps
    jc = eligible[case["cut_q"] * len(eligible) // 1000]
    t, t_next = dates[jc], dates[jc + 1]
    ncalls = jc + 1
    off_t = math.floor(offset_of(case, t))
    if case["te_mode"] == "at-t":
        te = offset_of(case, t)           # t itself, time of day included (a multiple of 1/4 day for intraday tables)
        te = int(te) if te == int(te) else te
    elif case["te_mode"] == "day-before":
        te = max(tmin, off_t - 1)
    elif case["te_mode"] == "te-min":
        te = tmin
    else:
        te = tmin + case["te_q"] * (off_t - tmin + 1) // 1000
    c2 = dict(case, transformer_end=te)
    T2, counts = perturbed_tables(case, T1, t, t_next)
    # ---- soundness of the perturbation itself (harness self-check)
    for name in ("X", "Y"):
        a, b = T1[name], T2[name]
        assert a.index.equals(b.index) and np.array_equal(np.isnan(a.values), np.isnan(b.values))
        assert np.array_equal(a.loc[:t].values, b.loc[:t].values, equal_nan=True)
    assert (T2["Y"].values[np.isfinite(T2["Y"].values)] > 0).all() and np.isfinite(T2["X"].values[~np.isnan(T1["X"].values)]).all()
    if T1["rate"] is not None:
        assert T1["rate"].index.equals(T2["rate"].index) and T1["rate"].loc[:t].equals(T2["rate"].loc[:t])
        assert (T2["rate"].values < 0.25).all() and (T2["rate"].values > -1).all()

    env1 = xylab.build_env(c2, T1)
    env2 = xylab.build_env(c2, T2)
    tr1 = twin_run(env1, case, actions, ncalls)
    tr2 = twin_run(env2, case, actions, ncalls)
    where = "cut t=%s (call %d of %d), transformer_end=%s, rows > t rewritten" % (t, jc, len(dates) - 1, xylab.day(case, te))
    traded = False
    for j in range(max(len(tr1), len(tr2))):
        if j >= len(tr1) or j >= len(tr2):
            res.fail("%s: one run made %d calls, the other %d" % (where, len(tr1), len(tr2)))
            break
        a, b = tr1[j], tr2[j]
        if a != b:
            keys = sorted(set(a) | set(b))
            diff = [k for k in keys if a.get(k) != b.get(k)]
            k0 = diff[0]
            res.fail("%s: outputs of call %d (landing at %s <= t) differ in %s: %s=%r on the original tables, %r on the rewritten ones" % (
                where, j, a.get("now"), diff, k0, _short(a.get(k0)), _short(b.get(k0))))
            break
        if "exception" in a:
            break
        ex = a["executed"]
        if ex and any(float.fromhex(q) != 0.0 for (_, q, _, _) in ex["trades"]):
            traded = True
    if not res.violations:
        if tr1 and "exception" not in tr1[-1] and tr1[-1]["now"] != str(t):
            # the twin with the real transformer did not follow the probe's dates: nothing to conclude beyond the trace
            res.tag("dates-differ-from-probe")
        s1, s2 = env1._reward.scale, env2._reward.scale
        if hexf(s1) != hexf(s2):
            res.fail("%s: reward scale %r on the original tables, %r on the rewritten ones" % (where, s1, s2))
        if frame_key(env1.X, t) != frame_key(env2.X, t):
            A, B = env1.X.loc[:t], env2.X.loc[:t]
            msg = "different rows"
            if A.shape == B.shape:
                i, j = [int(k[0]) for k in np.nonzero(A.values != B.values)]
                msg = "[%s, %s] = %r vs %r" % (A.index[i], A.columns[j], float(A.values[i, j]), float(B.values[i, j]))
            res.fail("%s: published features env.X.loc[:t] differ: %s" % (where, msg))
        if frame_key(env1.Y, t) != frame_key(env2.Y, t):
            res.fail("%s: published prices env.Y.loc[:t] differ" % where)
        if history_key(env1, t) != history_key(env2, t):
            res.fail("%s: recorded state history up to t differs" % where)
        k1 = [entry_key(env1.broker.track_record[i]) for i in range(len(env1.broker.track_record))]
        k2 = [entry_key(env2.broker.track_record[i]) for i in range(len(env2.broker.track_record))]
        if k1 != k2:
            res.fail("%s: track records up to t differ" % where)
    # ---- classes
    pos = jc / max(1, len(dates) - 1)
    res.tag("cut=first-third" if pos < 1 / 3 else "cut=middle-third" if pos < 2 / 3 else "cut=last-third")
    if jc == 0:
        res.tag("cut=reset")
    what = ["X"] if counts["x"] else []
    what += ["Y"] if counts["y"] else []
    what += ["rate"] if counts["rate"] else []
    res.tag("perturbed=" + "+".join(what), "rows=" + case["perturb"]["rows"], "x-rewrite=" + case["perturb"]["x"],
            "transformer_end=" + case["te_mode"])
    if counts["x_next"]:
        res.tag("feature-rewritten-in-next-step")
    if counts["y_next"]:
        res.tag("price-rewritten-in-next-step")
    if counts["rate_next"]:
        res.tag("rate-rewritten-in-next-step")
    if gap_at(t):
        res.tag("feature-gap-at-t")
    if price_nan_at(t):
        res.tag("price-nan-at-t")
    if traded:
        res.tag("traded-at-or-before-t")
    res.nontrivial = bool(counts["x_next"] and counts["y_next"] and traded and
                          (case["transformer"] is not None or case["window"] >= 2))
    return res


def _short(v):
    s = repr(v)
    return s if len(s) <= 160 else s[:157] + "..."


# ------------------------------------------------------------------------------------------------
# Sensitivity record (scratch copy of /repo/tradingenv, one mutant at a time,
# VERIF_PKG_ROOT=<scratch> ./check C02XY_TMP --tier quick --no-evidence with quick=640; all exit 1 + VIOLATION;
# the first eight with VERIF_SEED=1,2,3, the others with seed 1; number = evaluations until the failure):
#   env.py  self.transformer.fit(X)                                         caught (51-65): env.X.loc[:t] / observation
#   env.py  self.transformer.fit(X.loc[:end])                               caught (51-65)
#   env.py  X.bfill instead of X.ffill                                      caught (74-117): needs a missing feature at or
#           before t whose next value is dated > t (sparse feature index, NaN cell at t; cut_pref 'x-gap')
#   env.py  reward scale on all of Y                                        caught (8): reward scale, rewards
#   env.py  reward scale on Y.loc[:end] (own)                               caught (8)
#   env.py  EventNewObservation stamped with the previous row's time        caught (8): observation
#   transmitter.py  add_prices uses the next row's price (shift(-1))        caught (8): quotes, trades, NLV
#   env.py  rate taken from the next row                                    caught (24-56): rate quote in the exchange at t (the
#           interest paid with that rate only shows in the step after t; seen through trades only with sparse rates)
#   env.py  z-score recomputed with the statistics of the whole table       caught (53-83)
#   env.py  fit on X.loc[:transformer_end + 1 day] (own)                    caught (152): needs transformer_end = t / day before
#   env.py  reward scale on Y.loc[:transformer_end + 1 day] (own)           caught (8)
#   env.py  linear interpolation of inner gaps before the forward fill (own)  caught (89)
#   env.py  leading gaps filled with the column mean instead of 0 (own)     caught (160)
#   env.py  table divided by max|X|/clip instead of clipped (own)           caught (26)
#   transmitter.py  a missing price takes the next row's price (bfill(limit=1)) (own)   caught (222): cut_pref 'y-nan'
# Shrinking a failure takes 10-240 s (three environments are built per execution, ~0.13 s).
