#!/usr/bin/env python3
"""For each 'revert of a repaired defect' mutant, run the listed check against the mutant and keep the shrunk failing
case as corpus/<ID>/<mutant>.json, so that the quick tier re-detects a regression of that repair within seconds."""
import json, os, re, subprocess, sys, shutil, tempfile
ROOT = os.path.dirname(os.path.dirname(os.path.abspath(__file__)))
sys.path.insert(0, os.path.join(ROOT, "tools"))
import mutants as M, mutate
names = sys.argv[1:] or [m["name"] for m in M.MUTANTS if m["name"].startswith("revert_")]
table = {m["name"]: m for m in M.MUTANTS}
for name in names:
    m = table[name]
    dest = tempfile.mkdtemp(prefix="corpus_", dir="/tmp")
    try:
        mutate.apply(m, dest)
        for pid in m["props"]:
            env = dict(os.environ, VERIF_PKG_ROOT=dest, VERIF_SEED="1")
            p = subprocess.run([os.path.join(ROOT, "check"), pid, "--tier", "quick", "--no-evidence"], env=env, capture_output=True, text=True)
            mm = re.findall(r"VIOLATION property=%s replay=(\S+)" % pid, p.stdout)
            if not mm:
                print(name, pid, "not caught"); continue
            body = json.load(open(os.path.join(ROOT, mm[0])))
            out = {"part": body["part"], "case": body["case"], "note": "minimal case found against mutant %s (%s): %s" % (name, m["what"], body["violations"][0][:200])}
            os.makedirs(os.path.join(ROOT, "corpus", pid), exist_ok=True)
            json.dump(out, open(os.path.join(ROOT, "corpus", pid, name + ".json"), "w"), indent=1, sort_keys=True)
            print(name, pid, "saved", len(json.dumps(body["case"])), "bytes")
    finally:
        shutil.rmtree(dest, ignore_errors=True)
