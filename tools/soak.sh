#!/bin/sh
# Quiet-on-unchanged-tree soak: every check, several seeds, fresh processes. Usage: tools/soak.sh "2 3 4" [tier]
cd "$(dirname "$0")/.."
TIER=${2:-quick}
for s in $1; do
  for i in 01 02 03 04 05 06 07 08 09 10 11 12 13 14 15 16 17 18 19; do
    VERIF_SEED=$s ./check C$i --tier $TIER --no-evidence > /tmp/soak_C$i_$s.out 2>&1
    rc=$?
    echo "seed=$s C$i rc=$rc $(grep -c VIOLATION /tmp/soak_C$i_$s.out) $(tail -1 /tmp/soak_C$i_$s.out | cut -c1-120)"
    if [ $rc -ne 0 ]; then cp /tmp/soak_C$i_$s.out /tmp/soak_FAIL_C${i}_$s.out; fi
  done
done
