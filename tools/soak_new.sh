cd "$(dirname "$0")/.."
for s in 11 12; do
 for spec in "C01 wide 20000" "C05 wide 20000" "C07 long 6000" "C08 long 8000" "C04 bulk 40000" "C17 malformed 40000" "C08 episodes 30000" "C10 traces 20000"; do
  set -- $spec
  VERIF_SEED=$s ./check $1 --tier quick --part $2 --examples $3 --no-evidence 2>&1 | tail -3
 done
done
