"""Catalogue of seeded mutants used by tools/mutate.py (sensitivity self-test, DESIGN section 2.8).
Each mutant: name, props (checks expected to catch it), what, edits [(path relative to repo root, old, new)].
Patterns are written with LF; mutate.py converts them for CRLF files.
"""
B = "tradingenv/broker/broker.py"
T = "tradingenv/broker/trade.py"
F = "tradingenv/broker/fees.py"
X = "tradingenv/exchange.py"
R = "tradingenv/broker/rebalancing.py"
A = "tradingenv/broker/allocation.py"
E = "tradingenv/env.py"
TR = "tradingenv/transmitter.py"
S = "tradingenv/spaces.py"
CT = "tradingenv/contracts.py"
RW = "tradingenv/rewards.py"
TK = "tradingenv/broker/track_record.py"

MUTANTS = [
    # ---- reverts of the repaired defects -------------------------------------------------------
    dict(name="revert_D1_liq_multiplier", props=["C01", "C05", "C03", "C07"], what="liquidation value without multiplier",
         edits=[(B, "value = contract.cash_requirement * quantity * liq_price * contract.multiplier",
                 "value = contract.cash_requirement * quantity * liq_price")]),
    dict(name="revert_D2_mark_reset", props=["C01", "C07"], what="mark price reset to acquisition price for the whole position",
         edits=[(B, "        self._last_marking_to_market_price[trade.contract] = ref_price\n",
                 "        self._last_marking_to_market_price[trade.contract] = trade.acq_price\n")]),
    # ---- C01 -----------------------------------------------------------------------------------
    dict(name="c01_drop_commission", props=["C01", "C07"], what="commission never debited",
         edits=[(B, "        self._holdings_quantity[self.base_currency] -= trade.cost_of_commissions\n", "")]),
    dict(name="c01_double_commission", props=["C01", "C07"], what="commission debited twice",
         edits=[(B, "        self._holdings_quantity[self.base_currency] -= trade.cost_of_commissions\n",
                 "        self._holdings_quantity[self.base_currency] -= 2 * trade.cost_of_commissions\n")]),
    dict(name="c01_cost_of_cash_no_mult", props=["C01"], what="cost_of_cash ignores the multiplier",
         edits=[(T, "self.cost_of_cash = self.notional * contract.cash_requirement",
                 "self.cost_of_cash = self.acq_price * quantity * contract.cash_requirement")]),
    dict(name="c01_variation_margin_sign_short", props=["C01", "C05"], what="variation margin uses |quantity|",
         edits=[(B, "            profit = quantity * contract.multiplier * price_change\n",
                 "            profit = abs(quantity) * contract.multiplier * price_change\n")]),
    dict(name="c01_lob_sides_swapped", props=["C01", "C14", "C03"], what="LimitOrderBook.acq_price returns ask for sells, bid for buys",
         edits=[(X, "        if quantity < 0:\n            return self.bid_price\n        elif quantity > 0:\n            return self.ask_price\n",
                 "        if quantity < 0:\n            return self.ask_price\n        elif quantity > 0:\n            return self.bid_price\n")]),
    dict(name="c01_fee_abs_dropped", props=["C01", "C07"], what="proportional fee without abs (sells earn a rebate)",
         edits=[(F, "return self.fixed + abs(trade.notional) * self.proportional",
                 "return self.fixed + trade.notional * self.proportional")]),
    dict(name="c01_trade_acq_side", props=["C01", "C07", "C08"], what="Trade prices sells at the ask",
         edits=[(T, "self.acq_price = ask_price if quantity > 0 else bid_price",
                 "self.acq_price = ask_price if quantity != 0 else bid_price")]),
    dict(name="c01_liq_side_long_at_ask", props=["C01", "C05"], what="longs liquidated at the ask in valuation",
         edits=[(B, "                    order_book.bid_price if quantity >= 0 else order_book.ask_price\n",
                 "                    order_book.ask_price if quantity >= 0 else order_book.bid_price\n")]),
    # (equivalent mutant, not listed: margin resized with |q|+|dq| in transact - the re-mark at the end of transact
    #  re-targets the margin, no observable difference)
    # ---- C05 -----------------------------------------------------------------------------------
    dict(name="c05_excess_not_swept", props=["C05"], what="excess margin stays in the margin account (NLV unchanged)",
         edits=[(B, "            self._holdings_margins[contract] -= excess_margin\n            self._holdings_quantity[self.base_currency] += excess_margin\n",
                 "            if excess_margin < 0:\n                self._holdings_margins[contract] -= excess_margin\n                self._holdings_quantity[self.base_currency] += excess_margin\n")]),
    dict(name="c05_target_margin_no_abs", props=["C05"], what="target margin without abs (shorts post negative margin)",
         edits=[(B, "                liq_price * abs(quantity) * contract.multiplier * contract.margin_requirement\n",
                 "                liq_price * quantity * contract.multiplier * contract.margin_requirement\n")]),
    dict(name="c05_sweep_stale_price", props=["C05"], what="margin target computed at the previous mark price",
         edits=[(B, "                liq_price * abs(quantity) * contract.multiplier * contract.margin_requirement\n",
                 "                last_price * abs(quantity) * contract.multiplier * contract.margin_requirement\n")]),
    dict(name="c05_weights_use_cash_value", props=["C05", "C03"], what="holdings_weights based on liquidation values instead of notional",
         edits=[(B, "        holdings_notional_values = self.holdings_values()\n",
                 "        holdings_notional_values = self.holdings_values(kind='liquidation')\n")]),
    dict(name="c05_trade_margin_at_liq", props=["C05"], what="after a trade the margin is left at acquisition price (no re-mark)",
         edits=[(B, "        self._last_marking_to_market_price[trade.contract] = ref_price\n        self.marking_to_market(trade.contract)\n",
                 "        self._last_marking_to_market_price[trade.contract] = ref_price\n")]),
    # ---- C03 -----------------------------------------------------------------------------------
    dict(name="c03_acq_price_by_holding_sign", props=["C03"], what="target conversion prices by the sign of the current holding",
         edits=[(A, "            avg_price = broker.exchange[contract].acq_price(weight)\n",
                 "            held = broker.holdings_quantity.get(contract, 0.0)\n            avg_price = broker.exchange[contract].acq_price(held if held != 0 else weight)\n")]),
    dict(name="c03_multiplier_dropped", props=["C03", "C01"], what="weight -> contracts ignores the multiplier",
         edits=[(A, "            nr_contracts[contract] = weight * nlv / avg_price / contract.multiplier\n",
                 "            nr_contracts[contract] = weight * nlv / avg_price\n")]),
    dict(name="c03_sub_ignores_absent", props=["C03", "C12", "C11"], what="__sub__ drops contracts absent from the target (no liquidation)",
         edits=[(A, "            for k, v in other.items():\n                mapping[k] = mapping.get(k, 0) - v\n",
                 "            for k, v in other.items():\n                if k in mapping:\n                    mapping[k] = mapping[k] - v\n")]),
    dict(name="c03_mid_price_targets", props=["C03"], what="weights converted at the mid price",
         edits=[(A, "            avg_price = broker.exchange[contract].acq_price(weight)\n",
                 "            avg_price = broker.exchange[contract].mid_price\n")]),
    dict(name="c03_zero_target_kept", props=["C03", "C12"], what="zero entries of the target are kept, so a zero-weight contract is thresholded / not liquidated exactly",
         edits=[(R, "        if self.absolute:\n            imbalance -= NrContracts(broker.holdings_quantity)\n",
                 "        if self.absolute:\n            held = {k: v for k, v in broker.holdings_quantity.items() if k in self.allocation}\n            imbalance -= NrContracts(held)\n")]),
    # ---- C12 -----------------------------------------------------------------------------------
    dict(name="revert_D6_zero_lot_raises", props=["C12"], what="sub-lot imbalance raises 'Quantity is zero'",
         edits=[(R, "                if quantity == 0:\n                    # Imbalance is smaller than one lot: nothing to trade.\n                    continue\n", "")]),
    dict(name="c12_threshold_le", props=["C12"], what="threshold test uses <= (a contract exactly at the threshold is skipped)",
         edits=[(R, "            if abs(weights[contract]) < self.margin and contract in self.allocation:",
                 "            if abs(weights[contract]) <= self.margin and contract in self.allocation:")]),
    dict(name="c12_liquidation_exemption_removed", props=["C12", "C11"], what="liquidations are subject to the threshold",
         edits=[(R, "            if abs(weights[contract]) < self.margin and contract in self.allocation:",
                 "            if abs(weights[contract]) < self.margin:")]),
    dict(name="c12_round_instead_of_int", props=["C12"], what="lots rounded to nearest instead of truncated",
         edits=[(R, "                quantity = int(quantity)\n", "                quantity = int(round(quantity))\n")]),
    dict(name="c12_floor_instead_of_int", props=["C12"], what="lots floored (differs for negative imbalances)",
         edits=[(R, "                quantity = int(quantity)\n", "                import math\n                quantity = int(math.floor(quantity))\n")]),
    dict(name="c12_signed_threshold", props=["C12"], what="threshold compared without abs (sells never filtered...)",
         edits=[(R, "            if abs(weights[contract]) < self.margin and contract in self.allocation:",
                 "            if weights[contract] < self.margin and contract in self.allocation:")]),
    dict(name="c12_cash_traded", props=["C12", "C17"], what="cash entries are not dropped from allocations",
         edits=[(A, "            if not isinstance(contract, Cash)\n", "")]),
    # ---- C13 -----------------------------------------------------------------------------------
    dict(name="c13_nan_check_removed", props=["C13"], what="holdings_values no longer raises on a NaN liquidation price",
         edits=[(B, "                if np.isnan(liq_price):\n                    raise ValueError(\n                        \"Missing liquidation transaction_price for {}.\".format(contract)\n                    )\n", "")]),
    dict(name="c13_nan_to_zero", props=["C13"], what="missing liquidation price valued at 0",
         edits=[(B, "                if np.isnan(liq_price):\n                    raise ValueError(\n                        \"Missing liquidation transaction_price for {}.\".format(contract)\n                    )\n",
                 "                if np.isnan(liq_price):\n                    liq_price = 0.0\n")]),
    dict(name="c13_transact_inside_loop", props=["C13"], what="trades are transacted while the trade list is still being built",
         edits=[(R, "            trades.append(trade)\n", "            trades.append(trade)\n            broker.transact(trade)\n"),
                (B, "        for trade in rebalancing.trades:\n            self.transact(trade)\n", "")]),
    dict(name="c13_dead_book_accepts_quotes", props=["C13", "C14"], what="a discontinued book accepts later quotes",
         edits=[(X, "        if book.is_alive:\n            book.update(event)\n", "        book.update(event)\n")]),
    dict(name="c13_trade_nan_bid_unchecked", props=["C13"], what="Trade does not reject a NaN bid (sell executes at NaN)",
         edits=[(T, "        if np.isnan(bid_price):\n            raise ValueError(\"Missing bid price for contract {}.\".format(contract))\n", "")]),
    dict(name="c13_zero_position_needs_quote", props=["C13"], what="flat positions also require a quote",
         edits=[(B, "            if quantity == 0:\n                value = 0.0\n            else:\n", "            if False:\n                value = 0.0\n            else:\n")]),
    dict(name="c13_checkpoint_before_trades", props=["C13", "C07"], what="track record checkpointed before trades are computed",
         edits=[(B, "        rebalancing.trades = rebalancing.make_trades(self)\n", "        self.track_record._checkpoint(rebalancing) if False else None\n        rebalancing.trades = []\n        self.track_record._checkpoint(rebalancing)\n        rebalancing.trades = rebalancing.make_trades(self)\n"),
                (B, "        rebalancing.context_post = self.context()\n        self.track_record._checkpoint(rebalancing)\n", "        rebalancing.context_post = self.context()\n")]),
]
