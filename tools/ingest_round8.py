#!/usr/bin/env python3
"""Ingest cross-cutting (round 8) seeded changes: tools/ingest_round6.py 1 2 ...  reads /tmp/seed8_<k>/out/{A,B,C}.diff"""
import json, os, shutil, sys
ROOT = os.path.dirname(os.path.dirname(os.path.abspath(__file__)))
sys.path.insert(0, os.path.join(ROOT, "tools"))
import seeded
for k in sys.argv[1:]:
    src = "/tmp/seed8_%s/out" % k
    notes = json.load(open(os.path.join(src, "notes.json"))) if os.path.exists(os.path.join(src, "notes.json")) else {}
    for v in "AB":
        if not os.path.exists(os.path.join(src, v + ".diff")) or not notes.get(v):
            print(k, v, "missing"); continue
        n = notes.get(v, {})
        prop = str(n.get("property", "C00")).strip().split()[0].split(",")[0][:3]
        d = os.path.join(ROOT, "seeded", "V%s%s_%s" % (k, v, prop))
        os.makedirs(d, exist_ok=True)
        shutil.copy(os.path.join(src, v + ".diff"), os.path.join(d, "patch.diff"))
        shutil.copy(os.path.join(src, "demo%s.py" % v), os.path.join(d, "demo.py"))
        try:
            ok, info = seeded.confirm(os.path.join(d, "patch.diff"), os.path.join(d, "demo.py"))
        except SystemExit as exc:
            print(k, v, "NOT CONFIRMED (%s)" % str(exc)[:100]); continue
        meta = {"property": prop, "checks": [prop], "summary": n.get("summary", ""), "needs_to_manifest": n.get("needs_to_manifest", ""),
                "files": n.get("files", []), "origin": "round 8 (short round: sibling code paths, scale, cooperating broker sites, data shapes and calendars): sub-agent given all 19 property statements, a scratch worktree with the fix commits in its history, a focus group of properties and the list of earlier sites",
                "confirmed": ok, "what_i_ran": "tools/seeded.py confirm: demo rc unchanged=%d, changed=%d; suite: %s" % (info["demo_unchanged_rc"], info["demo_changed_rc"], info["suite"])}
        json.dump(meta, open(os.path.join(d, "meta.json"), "w"), indent=1)
        print(k, v, prop, "CONFIRMED" if ok else "NOT CONFIRMED")
