#!/usr/bin/env python3
"""Ingest the output of a seeding agent: tools/ingest_seeded.py C08 [C04 ...]
Copies /tmp/seed_<ID>/out/{A,B}.diff + demos into seeded/<ID>_{A,B}/, confirms each change myself in a scratch copy
(demo passes unchanged, fails changed, suite still 641 passed) and writes meta.json."""
import json, os, shutil, sys, io, contextlib
ROOT = os.path.dirname(os.path.dirname(os.path.abspath(__file__)))
sys.path.insert(0, os.path.join(ROOT, "tools"))
import seeded
args = sys.argv[1:]
ROUND2 = "--round2" in args
ROUND3 = "--round3" in args
args = [a for a in args if a not in ("--round2", "--round3")]
NAMES = {"A": "E", "B": "F"} if ROUND3 else ({"A": "C", "B": "D"} if ROUND2 else {"A": "A", "B": "B"})
for pid in args:
    src = ("/tmp/seed3_%s/out" if ROUND3 else "/tmp/seed2_%s/out" if ROUND2 else "/tmp/seed_%s/out") % pid
    notes = json.load(open(os.path.join(src, "notes.json"))) if os.path.exists(os.path.join(src, "notes.json")) else {}
    for v in "AB":
        if not os.path.exists(os.path.join(src, v + ".diff")):
            print(pid, v, "missing"); continue
        d = os.path.join(ROOT, "seeded", "%s_%s" % (pid, NAMES[v]))
        os.makedirs(d, exist_ok=True)
        shutil.copy(os.path.join(src, v + ".diff"), os.path.join(d, "patch.diff"))
        shutil.copy(os.path.join(src, "demo%s.py" % v), os.path.join(d, "demo.py"))
        try:
            ok, info = seeded.confirm(os.path.join(d, "patch.diff"), os.path.join(d, "demo.py"))
        except SystemExit as exc:
            print(pid, NAMES[v], "NOT CONFIRMED (%s)" % str(exc)[:120])
            continue
        n = notes.get(v, {})
        meta = {"property": pid, "checks": [pid], "summary": n.get("summary", ""), "needs_to_manifest": n.get("needs_to_manifest", ""),
                "files": n.get("files", []), "origin": "independent sub-agent given only the property text and a scratch worktree",
                "confirmed": ok, "what_i_ran": "tools/seeded.py confirm: demo rc on unchanged scratch copy = %d, with the change = %d; pytest (pinned baseline collection) with the change: %s" % (
                    info["demo_unchanged_rc"], info["demo_changed_rc"], info["suite"])}
        json.dump(meta, open(os.path.join(d, "meta.json"), "w"), indent=1)
        print(pid, NAMES[v], "CONFIRMED" if ok else "NOT CONFIRMED")
