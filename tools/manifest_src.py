NOTES = ("All checks are property-based: Hypothesis-generated cases (plain JSON data) or exhaustive enumeration, "
         "driven through vlib/runner.py against an explicit oracle per property; failures are shrunk and written to "
         "replays/ as JSON which `./check <ID> --replay <file>` re-executes without Hypothesis. "
         "Genuine defects repaired in /repo by 'fix:' commits are listed in known_findings.json.")
BASE_NOTE = ("Trusted base: CPython, numpy, pandas, Hypothesis and the harness' own reference model. "
             "Exploration, not proof: no counterexample among the generated cases within the stated bounds.")
ENGINES = [
    {"name": "runner", "path": "vlib/runner.py", "serves_properties": ["C%02d" % i for i in range(1, 20)],
     "kind_free_text": "Hypothesis driver: seeding, sharding over processes, corpus replay, shrinking, replay files, evidence"},
    {"name": "brokerlab", "path": "vlib/brokerlab.py", "serves_properties": ["C01", "C03", "C05", "C12", "C13"],
     "kind_free_text": "generated broker histories (relative op lists) interpreted against a real Exchange+Broker and an independent wealth ledger"},
    {"name": "envlab", "path": "vlib/envlab.py", "serves_properties": ["C02", "C04", "C07", "C08", "C09", "C10", "C11", "C13", "C17"],
     "kind_free_text": "generated grids / event streams / environment configs, recorder observer, bitwise traces, timing and ledger models"},
    {"name": "xylab", "path": "vlib/xylab.py", "serves_properties": ["C02", "C18"],
     "kind_free_text": "generated X/Y/rate tables and TradingEnvXY configurations"},
]
CHECKS = {
    "C01": dict(engine="brokerlab", technique="Hypothesis model-based histories vs independent wealth ledger + spot<->future metamorphic twin",
                text="After every operation of generated broker histories the NLV is compared with an independent ledger; spot and margined twins must agree.",
                note=BASE_NOTE),
    "C03": dict(engine="brokerlab", technique="Hypothesis-generated prior holdings x targets vs post-trade position law; frictionless corollaries and idempotence",
                text="One rebalance from arbitrary generated prior holdings is checked against q*M*px = w*NLV_pre, exact closing of absent contracts and the frictionless corollaries.",
                note=BASE_NOTE),
    "C05": dict(engine="brokerlab", technique="Hypothesis model-based histories vs margin law and NLV decomposition at the named observation points",
                text="Posted margins, cash + margins + fully-paid values = NLV, weights and context are recomputed independently at every observation point of generated histories.",
                note=BASE_NOTE),
    "C06": dict(engine="brokerlab", technique="Hypothesis-generated accrual schedules vs 50-digit decimal closed form; split-invariance and query twins (bitwise)",
                text="Cash of either sign, rates, markups, intervals from 1 s to 50 years and arbitrary cut/query schedules are compared with a closed form in decimal arithmetic and with twin brokers.",
                note=BASE_NOTE),
    "C07": dict(engine="envlab", technique="Hypothesis-generated episodes; independent ledger replay of the recorded trades against the input quote stream; recomputed rewards; telescoping",
                text="Every track-record entry of generated episodes is re-derived from the input stream by a timing model and a ledger; rewards and TrackRecord frames are recomputed.",
                note=BASE_NOTE),
    "C08": dict(engine="envlab", technique="Hypothesis-generated episodes with distinct actions and quotes at the latency boundary vs FIFO queue model and last-quote pricing model",
                text="Executed allocations are matched to the decision submitted d steps earlier and every trade price to the last input quote stamped <= t+latency (integer microseconds).",
                note=BASE_NOTE),
    "C14": dict(engine="exchangelab", technique="Hypothesis model-based op histories (quote/discontinue/clock/query through object, clone, string and chain keys) vs dict model after every op",
                text="The whole exchange is compared with a dict model after every operation of generated histories, through every key kind.",
                note=BASE_NOTE),
    "C16": dict(engine="metricslab", technique="Hypothesis-generated level series vs numpy-only reference definitions; scale metamorphic relation; single-defect corruption must be rejected",
                text="Each listed metric is compared with a from-scratch reference on generated daily/irregular/intraday series and frames, is checked for scale invariance, and every single-defect corruption must raise.",
                note=BASE_NOTE),
    "C12": dict(engine="brokerlab", technique="Hypothesis with dyadic (exact) boundary construction vs independent trade-set model; indifference band elsewhere",
                text="make_trades is compared exactly with an independent trade-set model on inputs constructed on/around the threshold and lot boundaries.",
                note=BASE_NOTE),
    "C13": dict(engine="brokerlab", technique="Hypothesis fault-injection histories vs must-raise / must-succeed predicates and bitwise atomicity",
                text="Quote faults (NaN sides, never quoted, discontinued) are injected at every position of generated histories; valuations and rebalances must raise or succeed as the model predicts and a failing rebalance must leave positions and track record untouched.",
                note=BASE_NOTE),
    "C15": dict(engine="envlab", technique="Hypothesis-generated grids/folds/lengths vs independent step model; seeded reachability of every valid start; exhaustive walk-forward sizes",
                text="Episode visit sequences, exact decision counts, start sets (subset and reachability over seeds), refusals and walk-forward window algebra are checked against a naive model.",
                note=BASE_NOTE),
    "C19": dict(engine="calendarlab", technique="exhaustive enumeration of (class, year, month) + Hypothesis-generated chains vs datetime.date reference calendar",
                text="Every built-in future for every (class, year 1970..2099, month) is compared with an independent calendar; the finite domain is enumerated completely, chain spans are sampled.",
                note=BASE_NOTE),
}
NOT_APPLICABLE = {}
