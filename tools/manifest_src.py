NOTES = ("All checks are property-based: Hypothesis-generated cases (plain JSON data) or exhaustive enumeration, "
         "driven through vlib/runner.py against an explicit oracle per property; failures are shrunk and written to "
         "replays/ as JSON which `./check <ID> --replay <file>` re-executes without Hypothesis. "
         "Genuine defects repaired in /repo by 'fix:' commits are listed in known_findings.json.")
BASE_NOTE = ("Trusted base: CPython, numpy, pandas, Hypothesis and the harness' own reference model. "
             "Exploration, not proof: no counterexample among the generated cases within the stated bounds.")
ENGINES = [
    {"name": "runner", "path": "vlib/runner.py", "serves_properties": ["C%02d" % i for i in range(1, 20)],
     "kind_free_text": "Hypothesis driver: seeding, sharding over processes, corpus replay, shrinking, replay files, evidence"},
]
CHECKS = {
    "C19": dict(engine="calendarlab", technique="exhaustive enumeration of (class, year, month) + Hypothesis-generated chains vs datetime.date reference calendar",
                text="Every built-in future for every (class, year 1970..2099, month) is compared with an independent calendar; the finite domain is enumerated completely, chain spans are sampled.",
                note=BASE_NOTE),
}
NOT_APPLICABLE = {}
