#!/usr/bin/env python3
"""Renders seeded/README.md (and the table between the SEEDED markers of DESIGN.md) from seeded/*/meta.json and
seeded/RESULTS.json."""
import json, os, re
ROOT = os.path.dirname(os.path.dirname(os.path.abspath(__file__)))
base = os.path.join(ROOT, "seeded")
results = json.load(open(os.path.join(base, "RESULTS.json"))) if os.path.exists(os.path.join(base, "RESULTS.json")) else {}
rows = []
for name in sorted(os.listdir(base)):
    mp = os.path.join(base, name, "meta.json")
    if not os.path.exists(mp):
        continue
    m = json.load(open(mp))
    r = results.get(name, {})
    caught = ", ".join(k for k, v in sorted(r.items()) if v == "CAUGHT") or "-"
    missed = ", ".join(k for k, v in sorted(r.items()) if v != "CAUGHT")
    def short(t, n):
        t = " ".join(str(t).split())
        return (t[:n] + "...") if len(t) > n else t
    rows.append("| %s | %s | %s | %s | %s%s |" % (name, m["property"], short(m.get("summary", ""), 230).replace("|", "/"),
                                                 short(m.get("needs_to_manifest", ""), 200).replace("|", "/"), caught,
                                                 (" (missed by: %s)" % missed) if missed else ""))
head = ("| seeded change | property | what was changed | what it needs to manifest | caught by (quick tier, seed 1) |\n"
        "|---|---|---|---|---|\n")
table = head + "\n".join(rows) + "\n"
n = len(rows)
ncaught = sum(1 for name in results if any(v == "CAUGHT" for v in results[name].values()))
metas = {name: json.load(open(os.path.join(base, name, "meta.json"))) for name in results if os.path.exists(os.path.join(base, name, "meta.json"))}
nown = sum(1 for name, m in metas.items() if results[name].get(m["property"]) == "CAUGHT")
summary = ("%d seeded changes: %d caught by at least one of the checks listed in their meta.json, %d of them by the check of the "
           "property their author named.\n\n" % (n, ncaught, nown))
open(os.path.join(base, "README.md"), "w").write("# Independently seeded changes\n\nEach directory holds patch.diff (never applied to /repo), demo.py "
     "(passes on the unchanged tree, fails with the change) and meta.json. `python3 tools/seeded.py all` re-runs every change against "
     "its check in a scratch copy.\n\n" + summary + table)
p = os.path.join(ROOT, "DESIGN.md")
s = open(p).read()
if "<!-- SEEDED-BEGIN -->" in s:
    s = re.sub(r"<!-- SEEDED-BEGIN -->.*<!-- SEEDED-END -->", "<!-- SEEDED-BEGIN -->\n" + summary + table + "<!-- SEEDED-END -->", s, flags=re.S)
    open(p, "w").write(s)
print(summary)
