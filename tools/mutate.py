#!/usr/bin/env python3
"""Sensitivity self-test: apply one named mutant from tools/mutants.py to a scratch copy of /repo and
run the given checks against it (VERIF_PKG_ROOT). Never touches /repo.

    tools/mutate.py <mutant> [<ID> ...] [--tier quick] [--examples N] [--keep]
    tools/mutate.py --list
    tools/mutate.py --all [--only C01,C05]      run every mutant against the properties it names

Prints one line per (mutant, property): CAUGHT / MISSED / ERROR.
"""
import argparse
import os
import shutil
import subprocess
import sys
import tempfile
import time

ROOT = os.path.dirname(os.path.dirname(os.path.abspath(__file__)))
sys.path.insert(0, os.path.join(ROOT, "tools"))
import mutants as M  # noqa


def apply(mutant, dest):
    shutil.copytree("/repo/tradingenv", os.path.join(dest, "tradingenv"),
                    ignore=shutil.ignore_patterns("__pycache__"))
    edits = mutant["edits"]
    for rel, old, new in edits:
        path = os.path.join(dest, rel)
        with open(path, newline="") as f:
            s = f.read()
        crlf = "\r\n" in s
        if crlf:
            old = old.replace("\n", "\r\n")
            new = new.replace("\n", "\r\n")
        if s.count(old) != 1:
            raise SystemExit("mutant %s: pattern occurs %d times in %s" % (mutant["name"], s.count(old), rel))
        with open(path, "w", newline="") as f:
            f.write(s.replace(old, new))


def run(mutant, pids, tier, examples, keep=False, seed="1"):
    dest = tempfile.mkdtemp(prefix="mut_%s_" % mutant["name"], dir="/tmp")
    out = []
    try:
        apply(mutant, dest)
        for pid in pids:
            cmd = [os.path.join(ROOT, "check"), pid, "--tier", tier, "--no-evidence"]
            if examples:
                cmd += ["--examples", str(examples)]
            env = dict(os.environ, VERIF_PKG_ROOT=dest, VERIF_SEED=seed)
            t0 = time.time()
            p = subprocess.run(cmd, env=env, capture_output=True, text=True)
            dt = time.time() - t0
            viol = [l for l in p.stdout.splitlines() if l.startswith("VIOLATION")]
            why = [l.strip() for l in p.stdout.splitlines() if l.startswith("  part=")]
            if p.returncode == 1 and viol:
                status = "CAUGHT"
            elif p.returncode == 0:
                status = "MISSED"
            else:
                status = "ERROR(rc=%d)" % p.returncode
            print("%-34s %-4s %-12s %5.1fs  %s" % (mutant["name"], pid, status, dt, (why[0][:150] if why else "")))
            if status.startswith("ERROR"):
                print(p.stdout[-1500:])
                print(p.stderr[-1500:])
            sys.stdout.flush()
            out.append((mutant["name"], pid, status))
    finally:
        if not keep:
            shutil.rmtree(dest, ignore_errors=True)
        else:
            print("kept", dest)
    return out


def main():
    ap = argparse.ArgumentParser()
    ap.add_argument("mutant", nargs="?")
    ap.add_argument("pids", nargs="*")
    ap.add_argument("--tier", default="quick")
    ap.add_argument("--examples", type=int)
    ap.add_argument("--keep", action="store_true")
    ap.add_argument("--list", action="store_true")
    ap.add_argument("--all", action="store_true")
    ap.add_argument("--only")
    ap.add_argument("--seed", default="1")
    a = ap.parse_args()
    table = {m["name"]: m for m in M.MUTANTS}
    if a.list:
        for m in M.MUTANTS:
            print("%-34s %-18s %s" % (m["name"], ",".join(m["props"]), m["what"]))
        return
    if a.all:
        only = set(a.only.split(",")) if a.only else None
        results = []
        for m in M.MUTANTS:
            pids = [p for p in m["props"] if not only or p in only]
            pids = [p for p in pids if os.path.exists(os.path.join(ROOT, "props", p.lower() + ".py"))]
            if pids:
                try:
                    results += run(m, pids, a.tier, a.examples, seed=a.seed)
                except SystemExit as exc:           # the pattern of a catalogue entry no longer applies to /repo
                    print("NOT-APPLICABLE %s" % exc)
                    sys.stdout.flush()
        missed = [r for r in results if r[2] != "CAUGHT"]
        print("total %d, not caught %d: %s" % (len(results), len(missed), [(r[0], r[1]) for r in missed]))
        return
    m = table[a.mutant]
    run(m, a.pids or m["props"], a.tier, a.examples, a.keep, seed=a.seed)


if __name__ == "__main__":
    main()
