#!/usr/bin/env python3
"""Regenerates MANIFEST.json from tools/manifest_src.py (claimed checks) and properties.jsonl."""
import json, os, sys
ROOT = os.path.dirname(os.path.dirname(os.path.abspath(__file__)))
sys.path.insert(0, os.path.join(ROOT, "tools"))
import manifest_src as S

props = [json.loads(l) for l in open(os.path.join(ROOT, "properties.jsonl"))]
ids = [p["id"] for p in props]
checks = []
for pid in ids:
    c = S.CHECKS.get(pid)
    if not c or not os.path.exists(os.path.join(ROOT, "props", pid.lower() + ".py")):
        continue
    checks.append({
        "property_id": pid,
        "quick_cmd": "./check %s --tier quick" % pid,
        "thorough_cmd": "./check %s --tier thorough" % pid,
        "evidence_file": "evidence/%s.json" % pid,
        "replay_cmd_template": "./check %s --replay {path}" % pid,
        "engine": c["engine"],
        "level_claimed": {"category": "exploration", "text": c["text"], "design_ref": "DESIGN.md section 4, %s" % pid},
        "level_note": c["note"],
        "technique": c["technique"],
    })
claimed = {c["property_id"] for c in checks}
na = [{"property_id": pid, "reason": S.NOT_APPLICABLE.get(pid, "check not built yet in this revision of /verif; planned in DESIGN.md section 4")}
      for pid in ids if pid not in claimed]
manifest = {
    "version": 1,
    "setup_cmd": "./setup.sh",
    "hooks": {
        "guard": "TRADINGENV_VERIF",
        "enable": "no source hooks exist: every observation point is public API or a harness-supplied observer/contract subclass; checks import /repo/tradingenv (editable install) as it is",
        "baseline_off_cmd": "cd /repo && /venv/bin/python -m pytest -ra -q -p no:cacheprovider --timeout=900 --continue-on-collection-errors",
        "source_commits": [],
        "add_only": True,
    },
    "engines": S.ENGINES,
    "checks": checks,
    "notes": S.NOTES,
    "not_applicable": na,
}
json.dump(manifest, open(os.path.join(ROOT, "MANIFEST.json"), "w"), indent=1)
print("claimed:", sorted(claimed), "not claimed:", [x["property_id"] for x in na])
