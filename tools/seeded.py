#!/usr/bin/env python3
"""Work with seeded changes (/verif/seeded/<name>/patch.diff + demo.py + meta.json).

  tools/seeded.py confirm <patch.diff> <demo.py>      demo passes on the unchanged tree, fails with the patch,
                                                      and the repository's test suite still passes with it
  tools/seeded.py check <patch.diff> <ID> [<ID> ...]  run the given checks against a patched scratch copy
  tools/seeded.py all [--tier quick] [--only PREFIX]  run every seeded change (or those whose name starts with PREFIX,
                                                      merging into RESULTS.json) against the checks its meta.json lists

Everything happens in a scratch copy of /repo under /tmp (removed afterwards); /repo is never modified.
"""
import json
import os
import shutil
import subprocess
import sys
import tempfile
import time

ROOT = os.path.dirname(os.path.dirname(os.path.abspath(__file__)))
PY = "/venv/bin/python"


def scratch(patch=None):
    dest = tempfile.mkdtemp(prefix="seeded_", dir="/tmp")
    for name in ("tradingenv", "tests", "notebooks", "setup.py", "setup.cfg", "pyproject.toml", "README.md", "requirements.txt", "changelog.md", "LICENSE.txt"):
        src = os.path.join("/repo", name)
        if os.path.isdir(src):
            shutil.copytree(src, os.path.join(dest, name), ignore=shutil.ignore_patterns("__pycache__"))
        elif os.path.exists(src):
            shutil.copy(src, dest)
    if patch:
        p = subprocess.run(["git", "apply", "--whitespace=nowarn", os.path.abspath(patch)], cwd=dest, capture_output=True, text=True)
        if p.returncode != 0:
            shutil.rmtree(dest, ignore_errors=True)
            raise SystemExit("patch does not apply: %s" % p.stderr)
    return dest


def run_demo(dest, demo):
    env = dict(os.environ, PYTHONPATH=dest, PYTHONDONTWRITEBYTECODE="1")
    # the demos were written to live in <checkout>/out/: run a copy from there
    os.makedirs(os.path.join(dest, "out"), exist_ok=True)
    local = os.path.join(dest, "out", "demo.py")
    shutil.copy(os.path.abspath(demo), local)
    p = subprocess.run([PY, local], cwd=dest, env=env, capture_output=True, text=True, timeout=600)
    shutil.rmtree(os.path.join(dest, "out"), ignore_errors=True)      # keep it out of pytest's doctest collection
    return p.returncode, (p.stdout + p.stderr)[-600:]


def run_suite(dest):
    env = dict(os.environ, PYTHONDONTWRITEBYTECODE="1")
    # same collection as the pinned baseline command: tests/ plus the doctests of the package (setup.cfg addopts)
    p = subprocess.run([PY, "-m", "pytest", "-q", "-p", "no:cacheprovider", "--timeout=900", "--no-cov"], cwd=dest, env=env,
                       capture_output=True, text=True)
    tail = [l for l in p.stdout.splitlines() if " passed" in l or " failed" in l]
    failed = sorted(l.split(" ")[1] for l in p.stdout.splitlines() if l.startswith("FAILED "))
    return (tail[-1] if tail else p.stdout[-300:]), failed


def confirm(patch, demo):
    clean = scratch()
    try:
        rc0, out0 = run_demo(clean, demo)
    finally:
        shutil.rmtree(clean, ignore_errors=True)
    dest = scratch(patch)
    try:
        rc1, out1 = run_demo(dest, demo)
        summary, failed = run_suite(dest)
    finally:
        shutil.rmtree(dest, ignore_errors=True)
    only_readme = all("tests/examples/test_readme.py" in f for f in failed)
    ok = rc0 == 0 and rc1 != 0 and "641 passed" in summary and only_readme
    print("demo on unchanged tree: rc=%d" % rc0)
    print("demo with the change:   rc=%d  %s" % (rc1, out1.strip().splitlines()[-1] if out1.strip() else ""))
    print("test suite with the change: %s (failures outside test_readme: %s)" % (summary, [f for f in failed if "test_readme" not in f]))
    print("CONFIRMED" if ok else "NOT CONFIRMED")
    return ok, {"demo_unchanged_rc": rc0, "demo_changed_rc": rc1, "suite": summary}


def check(patch, pids, tier="quick", seed="1"):
    dest = scratch(patch)
    out = {}
    try:
        for pid in pids:
            t0 = time.time()
            env = dict(os.environ, VERIF_PKG_ROOT=dest, VERIF_SEED=seed)
            p = subprocess.run([os.path.join(ROOT, "check"), pid, "--tier", tier, "--no-evidence"], env=env, capture_output=True, text=True)
            viol = [l for l in p.stdout.splitlines() if l.startswith("VIOLATION")]
            why = [l.strip() for l in p.stdout.splitlines() if l.startswith("  part=")]
            status = "CAUGHT" if (p.returncode == 1 and viol) else ("MISSED" if p.returncode == 0 else "ERROR(rc=%d)" % p.returncode)
            print("%-40s %-4s %-10s %6.1fs  %s" % (os.path.basename(os.path.dirname(os.path.abspath(patch))), pid, status, time.time() - t0,
                                                  why[0][:160] if why else ""))
            if status.startswith("ERROR"):
                print(p.stdout[-1200:], p.stderr[-800:])
            sys.stdout.flush()
            out[pid] = status
    finally:
        shutil.rmtree(dest, ignore_errors=True)
    return out


def main():
    cmd = sys.argv[1]
    if cmd == "confirm":
        ok, _ = confirm(sys.argv[2], sys.argv[3])
        sys.exit(0 if ok else 1)
    if cmd == "check":
        check(sys.argv[2], sys.argv[3:])
        return
    if cmd == "all":
        tier = "quick"
        if "--tier" in sys.argv:
            tier = sys.argv[sys.argv.index("--tier") + 1]
        base = os.path.join(ROOT, "seeded")
        res = []
        only = sys.argv[sys.argv.index("--only") + 1] if "--only" in sys.argv else ""      # name prefix; results are merged
        for name in sorted(n for n in os.listdir(base) if n.startswith(only)):
            d = os.path.join(base, name)
            meta = os.path.join(d, "meta.json")
            if not os.path.exists(meta):
                continue
            m = json.load(open(meta))
            try:
                r = check(os.path.join(d, "patch.diff"), m.get("checks", [m["property"]]), tier)
            except SystemExit as exc:          # the patch no longer applies to /repo's tree: rebase it (git apply --3way in a scratch worktree)
                print("%-40s PATCH-DOES-NOT-APPLY %s" % (name, str(exc)[:120]))
                r = {p: "PATCH-DOES-NOT-APPLY" for p in m.get("checks", [m["property"]])}
            res.append((name, r))
        merged = json.load(open(os.path.join(base, "RESULTS.json"))) if only and os.path.exists(os.path.join(base, "RESULTS.json")) else {}
        merged.update({n: r for n, r in res})
        json.dump(merged, open(os.path.join(base, "RESULTS.json"), "w"), indent=1, sort_keys=True)
        missed = [n for n, r in res if not any(v == "CAUGHT" for v in r.values())]
        print("seeded changes: %d, caught by at least one listed check: %d, missed: %s" % (len(res), len(res) - len(missed), missed))


if __name__ == "__main__":
    main()
