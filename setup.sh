#!/bin/sh
# MANIFEST.setup_cmd: make sure hypothesis is importable by /venv's python (offline).
set -e
cd "$(dirname "$0")"
if ! /venv/bin/python -c "import hypothesis" 2>/dev/null; then
    /venv/bin/pip install --no-index --find-links /opt/veriftools/wheels hypothesis >/dev/null
fi
mkdir -p evidence replays
/venv/bin/python -c "import hypothesis, tradingenv, os; assert os.path.realpath(tradingenv.__file__).startswith('/repo/'), tradingenv.__file__; print('setup ok: hypothesis', hypothesis.__version__)"
