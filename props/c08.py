"""C08 Decision-to-execution timing: FIFO delay and latency pricing."""
from hypothesis import strategies as st

from vlib.runner import Part, Result
from vlib import envlab as E
from vlib import episode_oracle as O

ID = "C08"
RULE = ("Generated bar-shaped episodes with pairwise-distinct actions (action k has weights base + k*0.03), delay 0-4, latency in "
        "{0, 1us, 1s, gap/2, gap-1us}, extra quotes placed at t+latency-1us, t+latency, t+latency+1us and mid-gap, 3-15 timesteps, Box and "
        "Discrete spaces; half of the cases run a second episode on the same environment (actions reversed). Oracle: FIFO model (execution k carries the allocation of decision k-d, null allocation for the first d; executed "
        "sequence == d nulls + submitted prefix), every trade priced at the side-appropriate price of the last input quote stamped <= t+latency "
        "(integer microseconds), info['_rebalancing'] is the last track-record entry. Non-trivial = delay >= 1 and a quote inside the latency "
        "window (in particular exactly at the bound) before an execution.")
RULE = RULE + (" long: the same on episodes of 20-50 timesteps over 4-8 contracts with delays up to 8 and up to 60 extra quotes.")
ASSUMPTIONS = [
    "latency < minimum timestep gap; bar-shaped data",
    "discrete spaces: the null action is action 0 (statement), allocations are pairwise distinct",
]


@st.composite
def cases(draw, tier="quick"):
    c = draw(E.episode_cases(tier, max_points=15, max_delay=4, leverage=1.5, boundary_extras=True, distinct_actions=True,
                             with_pings=False, rewards=[["simple"]]))
    c["second_episode"] = draw(st.sampled_from([False, True]))      # a second episode on the same environment
    if draw(st.sampled_from([False, False, True])) and len(c["gaps"]) >= 4:
        # the episode starts at a later timestep (fold): history is replayed at reset, the first execution follows it
        g = E.grid_of(c)
        a = draw(st.integers(1, len(g) - 3))
        c["fold"] = [g[a], g[-1]]
        c["actions"] = c["actions"][: len(g) - 1 - a]
    if draw(st.sampled_from([False, False, True])):
        mingap = min(c["gaps"][1:])
        c["pre_env_latency_us"] = draw(st.sampled_from([0, 1, mingap // 2, mingap - 1]))   # an earlier env on the same transmitter
    if draw(st.sampled_from([False, False, False, True])):
        c["readd_timesteps"] = draw(st.lists(st.integers(0, 14), min_size=1, max_size=3))   # add_timesteps after the env was built
    if draw(st.integers(0, 2)) == 0:
        n = len(c["contracts"])
        k = draw(st.integers(2, 5))
        allocs = [[round(0.1 * (a + 1) + 0.07 * ci, 3) * (1 if (a + ci) % 2 == 0 else -1) for ci in range(n)] for a in range(k)]
        if draw(st.sampled_from([False, True])):
            allocs[draw(st.integers(1, k - 1))] = [0.0] * n       # a flat allocation that is NOT action 0 (the null action is action 0)
        c["space"] = ["discrete", allocs]
        c["actions"] = [draw(st.integers(0, k - 1)) for _ in c["actions"]]
    return c


@st.composite
def long_cases(draw, tier="quick"):
    """Episodes of 20-50 timesteps over 4-8 contracts, delays up to 8 steps, up to 60 extra quotes around the latency bound."""
    c = draw(E.episode_cases(tier, min_points=20, max_points=50, min_contracts=4, max_contracts=8, max_extras=60, max_delay=8,
                             leverage=1.5, boundary_extras=True, distinct_actions=True, with_pings=False, rewards=[["simple"]],
                             action_step=0.008))
    c["second_episode"] = draw(st.sampled_from([False, False, True]))
    return c


def run_long(case):
    res = run(case)
    res.tag("long")
    return res


def run(case):
    res = Result()
    stats = O.replay(case, res, {"fifo", "pricing"}, episodes=2 if case.get("second_episode") else 1)
    if stats["ruin"]:
        res.excluded = "ended-by-insolvency"
    res.nontrivial = case["delay"] >= 1 and stats["latent_quote_changed_price"] >= 1
    res.tag("delay=%d" % case["delay"], case["space"][0])
    if stats["boundary_quote"]:
        res.tag("quote-exactly-at-latency-bound")
    if stats["latent_quote_changed_price"]:
        res.tag("latent-quote")
    if case.get("second_episode"):
        res.tag("two-episodes-on-one-environment")
    if case.get("fold"):
        res.tag("episode-starts-in-a-later-fold")
    if case.get("readd_timesteps"):
        res.tag("timesteps-registered-again-after-build")
    if case.get("pre_env_latency_us") is not None and case["pre_env_latency_us"] != case["latency_us"]:
        res.tag("transmitter-previously-used-with-another-latency")
    return res


# ------------------------------------------------------------------------------------ tabular front-end
import numpy as np

from vlib import xylab


@st.composite
def xy_cases(draw, tier="quick"):
    c = draw(xylab.cases(tier))
    c["fold2"] = None
    c["steps_delay"] = draw(st.sampled_from([0, 0, 1, 2, 3]))
    c["margin"] = 0.0
    return c


def run_xy(case):
    """TradingEnvXY(steps_delay=d): execution k carries the weights submitted at decision k-d, zeros before."""
    res = Result()
    env = xylab.build_env(case)
    d = case["steps_delay"]
    env.reset(case["fold"] if case["folds"] is not None else "training-set")
    contracts = list(env.action_space.contracts)
    n = len(contracts)
    submitted = []
    k = 0
    done = False
    lo, hi = case["max_short"], case["max_long"]
    while not done and k < 60:
        # pairwise distinct in-bounds weight vectors
        w = [lo + (hi - lo) * (((k + 1) * 37 + 11 * i) % 97 + 1) / 99.0 for i in range(n)]
        w = [x / n if abs(x / n) >= 1e-3 else 1e-3 for x in w]
        action = np.array(w)
        quoted = [not np.isnan(env.exchange[c].bid_price) for c in contracts]
        submitted.append(w)
        try:
            obs, reward, done, info = env.step(action)
        except Exception as exc:  # noqa
            if all(quoted) and k - d >= 0:
                raise
            res.excluded = "unquoted-asset-targeted"
            break
        k += 1
        if not info:
            res.excluded = "ended-by-insolvency"
            break
        entry = env.broker.track_record[-1]
        src = k - 1 - d
        want = {contracts[i].symbol: float(submitted[src][i]) for i in range(n)} if src >= 0 else {}
        got = {c.symbol: float(v) for c, v in entry.allocation.items()}
        if got != want:
            res.fail("TradingEnvXY(steps_delay=%d): execution %d carries %s, the weights submitted at decision %d are %s" % (d, k, got, src + 1, want))
            break
    res.nontrivial = k > d + 1
    res.tag("xy-delay=%d" % d)
    return res


PARTS = [
    Part("episodes", strategy=lambda tier: cases(tier), run=run, quick=2500, thorough=150000),
    Part("long", strategy=lambda tier: long_cases(tier), run=run_long, quick=300, thorough=20000),
    Part("xy-delay", strategy=lambda tier: xy_cases(tier), run=run_xy, quick=300, thorough=8000),
]
RULE = RULE + (" xy-delay: TradingEnvXY configurations (xylab) with steps_delay in {0,1,2,3} and pairwise distinct weight vectors: execution k must carry "
               "the weights of decision k-d (zeros for the first d).")
