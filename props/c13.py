"""C13 Missing prices fail loudly; a rebalance is all-or-nothing (broker level + environment level)."""
import math
from datetime import timedelta

from hypothesis import strategies as st

from vlib.runner import Part, Result
from vlib import brokerlab as B
from tradingenv.broker.broker import EndOfEpisodeError
from tradingenv.events import EventNBBO, EventContractDiscontinued

ID = "C13"
RULE = ("broker: generated histories over 2-4 contracts (spot/margined, some never quoted) of ops {good quote, quote with NaN bid / NaN ask / "
        "both, discontinue, quote to a dead book, trade, valuation call, rebalance(weights or nr-contracts, fresh or stale time)}. A dict model "
        "tracks which side of which book is available. Oracle: (must-raise) a non-zero position whose liquidation side is missing => "
        "net_liquidation_value (both flags), holdings_values (both kinds), holdings_weights, context and rebalance raise; a non-zero target "
        "whose acquisition side is missing => rebalance raises; (must-succeed) every non-zero position has its liquidation side => valuations "
        "succeed and are finite whatever flat contracts lack; all involved contracts quoted on both sides, NLV>0, fresh time => rebalance "
        "succeeds (rebalances carry a no-trade threshold in {0, 5%, 20%}: a skipped small imbalance needs no quote, a missing NEEDED side must "
        "still raise); (atomicity) whenever rebalance raises, every contract position is bitwise unchanged and the track record has the same length. "
        "Non-trivial = a multi-trade rebalance whose failing contract is not the first one, or a held contract losing its quote while another "
        "contract is targeted, or a must-succeed call with an unquoted flat contract present.")
ASSUMPTIONS = [
    "one-sided quotes on a contract that the rebalance would trade: the property only requires a raise when the NEEDED side is missing; "
    "tradingenv also refuses when the other side is missing - both outcomes accepted ('either'), atomicity still asserted",
    "rebalances use |weights| <= 1 and spreads <= 2% so trading costs cannot exhaust the account (a post-trade EndOfEpisodeError is excluded and counted)",
    "rebalancing twice at the same timestamp is outside the generated domain (the track record refuses duplicates after execution; belongs to no listed property)",
]

FAULTS = ["nan_bid", "nan_ask", "nan_both"]


@st.composite
def cases(draw, tier="quick"):
    n = draw(st.integers(2, 4))
    specs = []
    for i in range(n):
        specs.append({"kind": draw(st.sampled_from(["uspot", "umargin", "etf", "es"])),
                      "mult": draw(st.sampled_from([1.0, 2.0, 10.0])), "margin": draw(st.sampled_from([0.1, 0.5])),
                      "p0": draw(st.sampled_from([1.0, 10.0, 100.0, 37.5])), "s0": draw(st.sampled_from([0.0, 0.01, 0.02])),
                      "quoted": draw(st.integers(0, 4)) > 0})
    ci = st.integers(0, n - 1)
    w = st.one_of(st.none(), st.none(), st.just(0.0), st.floats(-0.9, 0.9).filter(lambda x: abs(x) > 0.02))
    op = st.one_of(
        st.tuples(st.just("Q"), ci, st.floats(0.9, 1.1), st.sampled_from([0.0, 0.01, 0.02])),
        st.tuples(st.just("QN"), ci, st.sampled_from(FAULTS)),
        st.tuples(st.just("QN"), ci, st.sampled_from(FAULTS)),
        st.tuples(st.just("D"), ci),
        st.tuples(st.just("T"), ci, st.floats(-0.4, 0.4).filter(lambda x: abs(x) > 0.02)),
        st.tuples(st.just("T"), ci, st.floats(-0.4, 0.4).filter(lambda x: abs(x) > 0.02)),
        st.tuples(st.just("V"), st.sampled_from(["nlv", "nlv_raise", "liq", "notional", "weights", "context"])),
        st.tuples(st.just("V"), st.sampled_from(["nlv", "nlv_raise", "liq", "notional", "weights", "context"])),
        # a position opened and fully closed again in legs of 0.1, 0.2 and -0.3 units (x scale): flat up to float residue
        st.tuples(st.just("L"), ci, st.sampled_from([1.0, -1.0, 3.0, 7.0])),
        st.tuples(st.just("R"), st.lists(w, min_size=n, max_size=n), st.sampled_from(["weight", "weight", "nr-contracts"]),
                  st.sampled_from(["fresh", "fresh", "fresh", "fresh", "stale"])),
        st.tuples(st.just("R"), st.lists(w, min_size=n, max_size=n), st.sampled_from(["weight", "weight", "nr-contracts"]),
                  st.just("fresh")),
    )
    ops = [list(o) for o in draw(st.lists(op, min_size=2, max_size=25))]
    unquoted = [i for i, s_ in enumerate(specs) if not s_["quoted"]]
    if unquoted and draw(st.booleans()):
        # motif: a contract discontinued BEFORE it was ever quoted or looked up, then a late quote, then targeted
        i = unquoted[0]
        tw = [None] * n
        tw[i] = draw(st.sampled_from([0.3, -0.3, 0.5]))
        ops = [["D", i]] + ops[: len(ops) // 2] + [["Q", i, 1.0, 0.0]] + ops[len(ops) // 2:] + \
              [["R", tw, draw(st.sampled_from(["weight", "nr-contracts"])), "fresh"]]
    thr = draw(st.sampled_from([0.0, 0.0, 0.05, 0.2]))
    return {"contracts": specs, "deposit": 1000.0, "threshold": thr, "fees": [draw(st.sampled_from([0.0, 0.1])), draw(st.sampled_from([0.0, 0.001]))],
            "rate": draw(st.sampled_from([0.0, 0.03])), "markup": 0.0, "ops": [list(o) for o in ops]}


THR = [0.0]


def run_broker(case):
    res = Result()
    THR[0] = case.get("threshold", 0.0)
    lab = B.Lab(case, quote_all=False)
    led, br, n = lab.ledger, lab.broker, lab.n
    alive = [True] * n
    flags = set()
    for i, s in enumerate(case["contracts"]):
        if s["quoted"]:
            lab.send_quote(i, s["p0"], s["s0"])

    def bid_ok(i):
        return alive[i] and not math.isnan(led.bid[i])

    def ask_ok(i):
        return alive[i] and not math.isnan(led.ask[i])

    def liq_missing():
        return [i for i in range(n) if led.q[i] != 0 and not (bid_ok(i) if led.q[i] > 0 else ask_ok(i))]

    def positions():
        return [float(lab.code_q(i)).hex() for i in range(n)]

    last_reb_time = [None]
    for k, op in enumerate(case["ops"]):
        tag = "#%d %s" % (k, op[0])
        kind = op[0]
        if kind == "Q":
            i = op[1]
            mid = lab.mid[i] * op[2]
            bid, ask = mid * (1 - op[3] / 2), mid * (1 + op[3] / 2)
            lab.mid[i] = mid
            lab.exchange.process_EventNBBO(EventNBBO(lab.tick(), lab.contracts[i], bid, ask))
            if alive[i]:
                led.quote(i, bid, ask)
            else:
                flags.add("quote-to-dead-book")
        elif kind == "QN":
            i = op[1]
            mid = lab.mid[i]
            bid = float("nan") if op[2] in ("nan_bid", "nan_both") else mid
            ask = float("nan") if op[2] in ("nan_ask", "nan_both") else mid
            lab.exchange.process_EventNBBO(EventNBBO(lab.tick(), lab.contracts[i], bid, ask))
            if alive[i]:
                led.quote(i, bid, ask)
        elif kind == "D":
            i = op[1]
            lab.exchange.process_EventContractDiscontinued(EventContractDiscontinued(lab.tick(), lab.contracts[i]))
            alive[i] = False
            led.quote(i, float("nan"), float("nan"))
            if led.q[i] != 0:
                flags.add("held-contract-discontinued")
        elif kind == "T":
            i = op[1]
            if not (bid_ok(i) and ask_ok(i)) or liq_missing():
                continue
            nlv = led.nlv()
            if not nlv > 100:
                continue
            dq = lab.resolve_trade(i, "open", op[2] * min(1.0, 1000.0 / nlv))
            if dq:
                lab.transact(i, dq)
        elif kind == "L":
            i = op[1]
            if not (bid_ok(i) and ask_ok(i)) or liq_missing() or led.q[i] != 0 or not led.nlv() > 100:
                continue
            unit = op[2] * 10.0 / (lab.mid[i] * lab.mult[i])
            for leg in (0.1 * unit, 0.2 * unit, -0.3 * unit):
                lab.transact(i, leg)
            flags.add("closed-in-legs")
            if lab.code_q(i) != 0.0:
                res.fail("%s: a position opened and closed in legs (0.1+0.2-0.3 units) is reported as %r, not flat" % (tag, lab.code_q(i)))
                return finish(res, flags)
        elif kind == "V":
            missing = liq_missing()
            nlv_model = None if missing else led.nlv()
            what = op[1]
            calls = {
                "nlv": lambda: br.net_liquidation_value(raise_if_broke=False),
                "nlv_raise": lambda: br.net_liquidation_value(),
                "liq": lambda: br.holdings_values("liquidation"),
                "notional": lambda: br.holdings_values("notional"),
                "weights": lambda: br.holdings_weights(),
                "context": lambda: br.context(),
            }
            try:
                out = calls[what]()
                err = None
            except Exception as exc:  # noqa
                out, err = None, exc
            if missing:
                res.tag("valuation-must-raise")
                if err is None:
                    res.fail("%s: %s returned %r although contract %d (position %r) has no %s quote" % (
                        tag, what, out if not isinstance(out, dict) else dict(out), missing[0], led.q[missing[0]],
                        "bid" if led.q[missing[0]] > 0 else "ask"))
                    return finish(res, flags)
                if isinstance(err, EndOfEpisodeError):
                    res.fail("%s: %s signalled end-of-episode instead of a missing price for contract %d" % (tag, what, missing[0]))
                    return finish(res, flags)
            else:
                res.tag("valuation-must-succeed")
                if any(led.q[i] == 0 and not (bid_ok(i) and ask_ok(i)) for i in range(n)):
                    flags.add("succeeds-with-unquoted-flat-contract")
                broke = nlv_model <= 1e-9 * led.scale()
                if err is not None and not (broke and what in ("nlv_raise", "weights", "context") and isinstance(err, EndOfEpisodeError)):
                    res.fail("%s: %s raised %s: %s although every non-zero position has its liquidation quote" % (
                        tag, what, type(err).__name__, str(err)[:120]))
                    return finish(res, flags)
                if err is None:
                    vals = [out] if isinstance(out, float) or hasattr(out, "__float__") else (
                        list(out.values()) if isinstance(out, dict) else [out.nlv] + list(out.weights.values()) + list(out.values.values()))
                    if any(math.isnan(float(v)) or math.isinf(float(v)) for v in vals):
                        res.fail("%s: %s returned a non-finite value %r" % (tag, what, vals))
                        return finish(res, flags)
                    if what in ("nlv", "nlv_raise") and not abs(float(out) - nlv_model) <= 1e-9 * led.scale():
                        res.fail("%s: NLV %.12g, ledger %.12g" % (tag, float(out), nlv_model))
                        return finish(res, flags)
        elif kind == "R":
            targets = list(op[1])
            measure = op[2]
            stale = op[3] == "stale" and last_reb_time[0] is not None
            missing = liq_missing()
            nlv_model = None if missing else led.nlv()
            if measure == "nr-contracts":
                # weights -> lots of comparable size
                targets = [None if w is None else (0.0 if w == 0 else round(w * 1000.0 / (lab.mid[j] * lab.mult[j]), 4)) for j, w in enumerate(targets)]
                targets = [t if (t is None or abs(t) >= 1e-3) else 0.0 for t in targets]
            involved = [i for i in range(n) if led.q[i] != 0 or (targets[i] not in (None, 0.0))]
            needed_missing = list(missing)
            for i in range(n):
                w = targets[i]
                if w in (None, 0.0) or i in missing:
                    continue
                if measure == "weight":
                    # converting a weight into contracts needs the acquisition side of the target's sign
                    if not (ask_ok(i) if w > 0 else bid_ok(i)):
                        needed_missing.append(i)
                        continue
                    if nlv_model is None:
                        continue
                    tq = w * nlv_model / ((led.ask[i] if w > 0 else led.bid[i]) * lab.mult[i])
                else:
                    tq = w
                imb = tq - led.q[i]
                # a non-zero imbalance is executed at the side of its own sign
                if imb != 0 and not (ask_ok(i) if imb > 0 else bid_ok(i)):
                    needed_missing.append(i)
            both_ok = all(bid_ok(i) and ask_ok(i) for i in involved)
            solvent = nlv_model is not None and nlv_model > 50.0
            if stale:
                reb = lab.rebalancing(targets, measure, 1, margin=case.get("threshold", 0.0))
                reb.time = last_reb_time[0] - timedelta(seconds=7)
                lab.reb_time = last_reb_time[0]
            else:
                reb = lab.rebalancing(targets, measure, 3600, margin=case.get("threshold", 0.0))
            before = positions()
            len_before = len(br.track_record)
            tr_before = record_fingerprint(br.track_record)
            try:
                br.rebalance(reb)
                err = None
            except Exception as exc:  # noqa
                err = exc
            if err is not None:
                if isinstance(err, EndOfEpisodeError) and reb.context_pre is not Ellipsis:
                    res.excluded = "ruined-by-own-trading-costs"
                    return finish(res, flags)
                if isinstance(reb.profit_on_idle_cash, float) or hasattr(reb.profit_on_idle_cash, "__float__"):
                    led.interest += float(reb.profit_on_idle_cash)   # interest may already have been credited
                if positions() != before:
                    res.fail("%s: rebalance raised %s but positions changed from %s to %s" % (tag, type(err).__name__, before, positions()))
                    return finish(res, flags)
                if len(br.track_record) != len_before:
                    res.fail("%s: rebalance raised %s but the track record grew" % (tag, type(err).__name__))
                    return finish(res, flags)
                if record_fingerprint(br.track_record) != tr_before:
                    res.fail("%s: rebalance raised %s and left the track record changed: %s -> %s" % (
                        tag, type(err).__name__, tr_before, record_fingerprint(br.track_record)))
                    return finish(res, flags)
                res.tag("rebalance-raised")
                traded_first = [i for i in range(n) if (targets[i] not in (None, 0.0)) or led.q[i] != 0]
                if needed_missing and traded_first and needed_missing[0] != traded_first[0] and len(traded_first) >= 2:
                    flags.add("failing-contract-not-first")
                if missing and any(targets[i] not in (None, 0.0) for i in range(n) if i not in missing):
                    flags.add("held-lost-quote-while-other-targeted")
                if not needed_missing and both_ok and solvent and not stale:
                    res.fail("%s: rebalance raised %s: %s although every involved contract is quoted on both sides, NLV=%.6g > 0 and the time is fresh" % (
                        tag, type(err).__name__, str(err)[:120], nlv_model))
                    return finish(res, flags)
            else:
                last_reb_time[0] = reb.time
                led.interest += float(reb.profit_on_idle_cash)
                lab.apply_recorded_trades(reb)
                res.tag("rebalance-succeeded")
                if needed_missing:
                    i = needed_missing[0]
                    res.fail("%s: rebalance succeeded although contract %d (position %r, target %r) lacks the quote it needs" % (
                        tag, i, led.q[i] - sum(t.quantity for t in reb.trades if lab.index_of(t.contract) == i), targets[i]))
                    return finish(res, flags)
                if stale:
                    res.fail("%s: rebalance at a time earlier than the last accrual succeeded" % tag)
                    return finish(res, flags)
                for i in range(n):
                    if not B.close(lab.code_q(i), led.q[i], rel=1e-12, abs_=1e-12):
                        res.fail("%s: position of contract %d is %r, executed trades sum to %r" % (tag, i, lab.code_q(i), led.q[i]))
                        return finish(res, flags)
                nlv_after = br.net_liquidation_value(raise_if_broke=False)
                if math.isnan(nlv_after) or math.isinf(nlv_after):
                    res.fail("%s: NLV after a successful rebalance is %r" % (tag, nlv_after))
                    return finish(res, flags)
                if len(br.track_record) != len_before + 1:
                    res.fail("%s: successful rebalance did not add exactly one track-record entry" % tag)
                    return finish(res, flags)
    return finish(res, flags)


def record_fingerprint(tr):
    """What a user can see of the track record through indexing: entries by position (first, last, all) and by time."""
    try:
        n = len(tr)
        by_pos = [id(tr[k]) for k in range(n)]
        last = id(tr[-1]) if n else None
        times = [str(tr[k].time) for k in range(n)]
        by_time = [id(tr[tr[k].time]) for k in range(n)]
        frame = len(tr.net_liquidation_value()) if n else 0
        return (n, by_pos, last, times, by_time, frame)
    except Exception as exc:  # noqa
        return "unreadable: %s: %s" % (type(exc).__name__, str(exc)[:80])


def finish(res, flags):
    for f in flags:
        res.tag(f)
    res.tag("threshold=%g" % THR[0])
    res.nontrivial = bool(flags & {"failing-contract-not-first", "held-lost-quote-while-other-targeted",
                                   "succeeds-with-unquoted-flat-contract"})
    return res


PARTS = [
    Part("broker", strategy=lambda tier: cases(tier), run=run_broker, quick=6000, thorough=400000),
]


# ------------------------------------------------------------------------------------------ environment

from vlib import envlab as E
import numpy as np


@st.composite
def env_cases(draw, tier="quick"):
    c = draw(E.episode_cases(tier, max_points=8, max_delay=0, leverage=1.0, with_pings=False, with_rates=False,
                             rewards=[["simple"], ["log"], ["pnl"]], kinds=["etf", "uspot", "umargin"], spreads=(0.0, 0.01)))
    c["extras"] = []
    n = len(c["contracts"])
    npts = len(c["gaps"])
    c["fault"] = {"ci": draw(st.integers(0, n - 1)), "at": draw(st.integers(1, npts - 1)),
                  "kind": draw(st.sampled_from(["nan_bid", "nan_ask", "nan_both", "discontinue", "discontinue"])),
                  "later": draw(st.sampled_from(["stop", "continue", "continue"]))}
    # actions: non-zero weights so that contracts are held / targeted around the fault
    acts = []
    for k in range(npts - 1):
        acts.append([draw(st.sampled_from([0.0, 0.3, -0.3, 0.2, -0.15, 0.25])) for _ in range(n)])
    c["actions"] = acts
    c["delay"] = 0
    return c


def faulty_stream(b, case):
    f = case["fault"]
    t_fault = b.grid[f["at"]]
    out = []
    done = False
    for (t, kind, payload) in b.stream:
        if kind == "Q" and payload[0] == f["ci"] and t >= t_fault:
            if not done:
                done = True
                mid = 0.5 * (payload[1] + payload[2])
                if f["kind"] == "discontinue":
                    out.append((t, "DISC", f["ci"]))
                else:
                    bid = float("nan") if f["kind"] in ("nan_bid", "nan_both") else payload[1]
                    ask = float("nan") if f["kind"] in ("nan_ask", "nan_both") else payload[2]
                    out.append((t, "Q", (f["ci"], bid, ask)))
                continue
            if f["later"] == "stop" or f["kind"] != "discontinue":
                # quotes simply stop (or, for NaN faults, never come back: the faulty quote stays the last one)
                continue
            out.append((t, kind, payload))      # later quotes to a dead book must be ignored
        else:
            out.append((t, kind, payload))
    return out


def run_env(case):
    res = Result()
    b0 = E.build(case, make_env=False)
    stream = faulty_stream(b0, case)
    b = E.build(case, stream_override=stream)
    # the grid point of the fault keeps an event exactly on it (other contracts' bars, or the fault itself)
    tm = E.Timing(b)
    env = b.env
    n = b.n
    f = case["fault"]
    fixed, prop = case.get("fees", [0.0, 0.0])
    led = B.Ledger(n, b.mult, case.get("deposit", 1000.0), fixed, prop)
    env.reset()
    flags = set()

    def sides(events):
        bid = [float("nan")] * n
        ask = [float("nan")] * n
        dead = [False] * n
        for e in events:
            if e[2] == "Q":
                ci, b_, a_ = e[3]
                if not dead[ci]:
                    bid[ci], ask[ci] = b_, a_
            elif e[2] == "DISC":
                dead[e[3]] = True
                bid[e[3]] = ask[e[3]] = float("nan")
        return bid, ask

    def positions():
        return [float(env.broker.holdings_quantity.get(x, 0.0)).hex() for x in b.contracts]

    for j in range(1, len(tm.steps)):
        if j - 1 >= len(case["actions"]):
            break
        entry_events = tm.delivered_after_step(j - 1)
        bid, ask = sides(entry_events)
        held_missing = [i for i in range(n) if led.q[i] != 0 and math.isnan(bid[i] if led.q[i] > 0 else ask[i])]
        # decision book = entry book + latent events of this step (faults sit on grid points: never latent)
        dbid, dask = sides(tm.delivered_before_execution(j))
        w = case["actions"][j - 1]
        target_missing = [i for i in range(n) if w[i] != 0 and math.isnan(dask[i] if w[i] > 0 else dbid[i])]
        involved = [i for i in range(n) if w[i] != 0 or led.q[i] != 0]
        both_ok = all(not math.isnan(dbid[i]) and not math.isnan(dask[i]) for i in involved)
        before = positions()
        ntr = len(env.broker.track_record)
        try:
            obs, reward, done, info = env.step(E.to_action(w))
            err = None
        except EndOfEpisodeError:
            res.excluded = "insolvent"
            break
        except Exception as exc:  # noqa
            err = exc
        abid, aask = sides(tm.delivered_after_step(j))
        if err is not None:
            if held_missing or target_missing or not both_ok:
                # the step was bound (or allowed) to fail before trading: nothing may have changed
                if positions() != before or len(env.broker.track_record) != ntr:
                    res.fail("step %d raised %s (fault %s on contract %d) but positions / track record changed: %s -> %s" % (
                        j, type(err).__name__, f["kind"], f["ci"], before, positions()))
                flags.add("step-raised-before-trading")
                if held_missing:
                    flags.add("held-contract-lost-its-quote")
                if target_missing and not held_missing:
                    flags.add("targeted-contract-without-quote")
                break
            # the rebalance was fully quoted: the only legitimate failure is the valuation after this step's events
            q_after = [float(env.broker.holdings_quantity.get(x, 0.0)) for x in b.contracts]
            post_missing = [i for i in range(n) if q_after[i] != 0 and math.isnan(abid[i] if q_after[i] > 0 else aask[i])]
            if not post_missing:
                res.fail("step %d raised %s: %s although every involved contract is quoted on both sides and no held position lost its quote" % (
                    j, type(err).__name__, str(err)[:120]))
            else:
                flags.add("valuation-after-fault-raised")
            break
        # the step returned normally
        if held_missing:
            i = held_missing[0]
            res.fail("step %d returned normally although contract %d (position %r) had no %s quote when the step began" % (
                j, i, led.q[i], "bid" if led.q[i] > 0 else "ask"))
            break
        if target_missing:
            i = target_missing[0]
            res.fail("step %d executed although contract %d (target weight %r) had no %s quote" % (j, i, w[i], "ask" if w[i] > 0 else "bid"))
            break
        if info:
            for trd in info["_rebalancing"].trades:
                led.trade(O_index(b, trd.contract), float(trd.quantity))
        post_missing = [i for i in range(n) if led.q[i] != 0 and math.isnan(abid[i] if led.q[i] > 0 else aask[i])]
        if post_missing:
            i = post_missing[0]
            res.fail("step %d returned reward %r although contract %d (position %r) lost its %s quote during the step" % (
                j, reward, i, led.q[i], "bid" if led.q[i] > 0 else "ask"))
            break
        if isinstance(reward, float) and (math.isnan(reward) or math.isinf(reward)) and not done:
            res.fail("step %d returned a non-finite reward %r" % (j, reward))
            break
        if any(led.q[i] == 0 and (math.isnan(abid[i]) or math.isnan(aask[i])) for i in range(n)):
            flags.add("continues-with-unquoted-flat-contract")
        if done:
            break
    for fl in flags:
        res.tag(fl)
    res.tag("fault-" + f["kind"], "later-" + f["later"])
    res.nontrivial = bool(flags & {"held-contract-lost-its-quote", "targeted-contract-without-quote", "valuation-after-fault-raised"})
    return res


def O_index(b, contract):
    for i, c in enumerate(b.contracts):
        if c.symbol == contract.symbol:
            return i
    raise KeyError(contract)


PARTS.append(Part("env", strategy=lambda tier: env_cases(tier), run=run_env, quick=2500, thorough=150000))
