"""C05 Margin account invariant and NLV decomposition."""
from vlib.runner import Part, Result
from vlib import brokerlab as B

ID = "C05"
RULE = ("Same generated broker histories as C01 but biased toward several margined contracts at once (user-defined margined with "
        "requirement in {0.004..1}, ES, ZN, NK), shorts and flips. Observation points exactly as the property names them: after a trade the "
        "traded contract's posted margin; after mark-to-market the marked contract(s); after every valuation (and after a rebalance, which ends "
        "with one) all margins, cash + margins + fully-paid liquidation values == reported NLV, weights == q*liq*M/NLV, notional values, "
        "context() == individual getters. Non-trivial = >= 2 margined contracts open at once or a short/flip on a margined contract.")
ASSUMPTIONS = [
    "margin law rel 1e-9; decomposition abs <= 1e-9 * (deposit + traded notional + open notional)",
    "weights/context only queried when NLV > 0 (valuation of a broke account raises by design, C09)",
    "<= 4 contracts, <= 40 ops per history (part wide: 5-12 contracts, 40-150 ops, prices 1e-3..1e6, deposits up to 1e10)",
]


def run_margin(case):
    res = Result()
    lab, stats = B.run_history(case, "c05", res)
    res.nontrivial = stats["margined_open_max"] >= 2 or stats["short_margined"] > 0
    if stats["margined_open_max"] >= 2:
        res.tag(">=2-margined-open")
    if stats["short_margined"]:
        res.tag("short-margined")
    if stats["flips"]:
        res.tag("flip")
    if stats["rebalances"]:
        res.tag("rebalance")
    if case.get("dyadic"):
        res.tag("dyadic")
    return res


def run_wide(case):
    res = run_margin(case)
    res.tag("wide")
    return res


PARTS = [
    Part("margin", strategy=lambda tier: B.histories(tier, margined_bias=True, near_close=True), run=run_margin, quick=5000, thorough=400000),
    Part("wide", strategy=lambda tier: B.histories(tier, margined_bias=True, near_close=True, wide=True), run=run_wide, quick=600, thorough=40000),
]
