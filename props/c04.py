"""C04 Event delivery is complete, exactly-once, on time and in timestamp order.

Part `transmitter`: the Transmitter alone against a delivery model (slot, latency split, fold, warm-up,
markov reset, unsorted grids with duplicates, two sweeps).
Part `environment`: a running TradingEnv with a recorder subscribed to every event type; the complete
sequence of callbacks (kind, payload, stamp, number of executed decisions, clock) of 2-3 consecutive
episodes is compared with the sequence the model predicts.
"""
import bisect
from datetime import timedelta

import numpy as np
from hypothesis import strategies as st

from vlib.runner import Part, Result
from vlib import envlab as E
from tradingenv.transmitter import Transmitter
from tradingenv.env import TradingEnv
from tradingenv.contracts import ETF, Rate, AbstractContract
from tradingenv.events import EventNBBO
from tradingenv.broker.fees import BrokerFees
from tradingenv.broker.broker import EndOfEpisodeError
from tradingenv import rewards as RW
from tradingenv.spaces import BoxPortfolio

ID = "C04"
US = E.US
RULE = ("transmitter: grids of 1-8 points given unsorted and with duplicates, 0-20 events at offsets {-3s,-1us,0,+1us,latency-1us,latency,"
        "latency+1us, mid-gap, beyond the end} around arbitrary grid points plus free positions, latency in {0,1us,1s,gap/2,gap-1us}, fold windows "
        "on/off grid points, markov reset, warm-up horizons, two consecutive sweeps; model: slot = first grid point >= time, latent iff within "
        "latency of the preceding grid point, first batch = history (all / within warm-up / none) + own slot in chronological order with ties in "
        "insertion order, later batches = exactly their slot, nothing after the fold end or the grid end. environment: same streams (quotes of one "
        "ETF + custom Ping events) with an event on every event-bearing grid point, folds, latency, markov/warm-up; 2-3 episodes on ONE environment "
        "(including resets into later folds); the recorder's full callback sequence must equal the model's: each event exactly once, in the predicted "
        "phase (reset / before or after the k-th execution), non-decreasing stamps, EventReset/Step/Done stamped with the latest market event "
        "processed, EventNewDate stamped with the last event of the previous date, env.now() and the contracts clock equal to those stamps, order "
        "book after reset = last quote in chronological order. Non-trivial = at least one latent event, one replayed history event and one "
        "undeliverable event (environment: additionally a date boundary inside an episode). at-ruin: C09's ruin scenarios (decision arriving broke through a latent quote, or ruin during the step's own events): after every step, the ruin step included, the environment clock and the exchange stand at the latest event of the timestep the step landed on.")
RULE = RULE + (" bulk: 30-150 events on a handful of distinct timestamps (on, just after and around the latency bound of 2-10 grid points), "
               "inserted in an order unrelated to time and handed over in segments through Transmitter.add_events and through "
               "Transmitter.add_custom_events (DataFrames whose rows are not sorted by time); same delivery model, ties in insertion order.")
ASSUMPTIONS = [
    "under markov reset, events stamped before the first grid point are not generated (the statement's clauses disagree about them)",
    "environment part: every event-bearing timestep carries an event exactly at the grid point (otherwise two decisions can share a timestamp; belongs to no listed property)",
    "time comparisons in integer microseconds; latency passed as timedelta(microseconds=n).total_seconds()",
]


# ------------------------------------------------------------------------------------------ transmitter

@st.composite
def tx_cases(draw, tier="quick"):
    n = draw(st.integers(1, 8))
    gaps = draw(st.lists(st.one_of(st.sampled_from([2 * US, 60 * US, 3600 * US, 86400 * US]), st.integers(2 * US, 200000 * US)),
                         min_size=n, max_size=n))
    grid = []
    t = 0
    for g in gaps:
        t += g
        grid.append(t)
    mingap = min(gaps[1:]) if n > 1 else 10 ** 15
    lat = draw(st.sampled_from([0, 1, US, mingap // 2, mingap // 2, mingap - 1]))
    lat = max(0, min(lat, mingap - 1, 10 ** 9 * US))
    if n == 1:
        lat = draw(st.sampled_from([0, 1, US]))
    evs = []
    for _ in range(draw(st.integers(0, 20))):
        gi = draw(st.integers(0, n - 1))
        off = draw(st.sampled_from([-3 * US, -1, 0, 1, 1, lat - 1, lat, lat, lat + 1, lat + 2, mingap // 2 if n > 1 else 5, 10 ** 6 * US]))
        evs.append(grid[gi] + off)
    for _ in range(draw(st.integers(0, 4))):
        evs.append(draw(st.integers(-5 * US, grid[-1] + 5 * US)))
    if draw(st.booleans()):
        evs.append(grid[-1] + draw(st.sampled_from([1, US, 86400 * US])))
    markov = draw(st.sampled_from([False, False, False, False, True]))
    if markov:
        evs = [e for e in evs if e >= grid[0]]
    warm = draw(st.sampled_from([None, None, None, None, 1, US, 100000 * US, grid[-1], 2 * grid[-1]]))
    given = list(grid) + [grid[i] for i in draw(st.lists(st.integers(0, n - 1), max_size=3))]
    given = draw(st.permutations(given))
    fs = draw(st.integers(min(1, n - 1), n - 1)) if draw(st.sampled_from([True, True, False])) else 0
    fe = draw(st.integers(fs, n - 1))
    lo = grid[fs] + draw(st.sampled_from([0, 0, 1, -1, -US]))
    hi = grid[fe] + draw(st.sampled_from([0, 0, 1, -1, US]))
    if hi < lo:
        hi = lo
    whole = draw(st.sampled_from([False, False, False, True]))
    return {"grid": list(given), "lat_us": lat, "evs": evs, "markov": markov, "warm_us": warm,
            "fold": None if whole else [lo, hi],
            # optionally a fixed-length episode whose start is sampled (numpy seed from the case)
            "episode_length": draw(st.sampled_from([None, None, 2, 3, 4])), "np_seed": draw(st.integers(0, 2 ** 20)),
            # how many of the given timesteps are handed over later (add_timesteps), after the events were added
            "added_later": draw(st.sampled_from([0, 0, 1, 2, 3]))}


@st.composite
def bulk_cases(draw, tier="quick"):
    """Many events (30-150) on few distinct timestamps, inserted in an order unrelated to time, handed over in segments
    through Transmitter.add_events and Transmitter.add_custom_events (a DataFrame whose rows are not sorted by time)."""
    n = draw(st.integers(2, 10))
    gaps = draw(st.lists(st.sampled_from([2 * US, 60 * US, 3600 * US, 86400 * US]), min_size=n, max_size=n))
    grid, t = [], 0
    for g in gaps:
        t += g
        grid.append(t)
    mingap = min(gaps[1:])
    lat = max(0, min(draw(st.sampled_from([0, 0, 1, US, mingap // 2, mingap - 1])), mingap - 1))
    stamps = sorted(set([g + o for g in grid for o in draw(st.lists(st.sampled_from([0, 0, 1, lat, lat + 1, -1, mingap // 2]), max_size=2))]))
    if not stamps:
        stamps = [grid[0]]
    m = draw(st.integers(30, 150))
    evs = [stamps[i] for i in draw(st.lists(st.integers(0, len(stamps) - 1), min_size=m, max_size=m))]
    segs = []
    left = m
    while left > 0:
        k = min(left, draw(st.integers(1, 80)))
        segs.append([draw(st.sampled_from(["events", "frame", "frame"])), k])
        left -= k
    return {"grid": grid, "lat_us": lat, "evs": evs, "markov": False, "warm_us": None, "fold": None, "episode_length": None,
            "np_seed": 0, "added_later": 0, "segments": segs}


def tx_model(case):
    grid = sorted(set(case["grid"]))
    lat = case["lat_us"]
    ev = []
    undeliverable = 0
    for i, s in enumerate(case["evs"]):
        if s > grid[-1]:
            undeliverable += 1
            continue
        k = bisect.bisect_left(grid, s)
        latent = k > 0 and (s - grid[k - 1]) <= lat
        ev.append((s, i, k, latent))
    ev.sort(key=lambda e: (e[0], e[1]))
    lo, hi = case["fold"] if case["fold"] else (-10 ** 30, 10 ** 30)
    steps = sorted({e[2] for e in ev if lo <= grid[e[2]] <= hi})
    return grid, ev, steps, undeliverable


def run_tx(case):
    res = Result()
    grid, ev, steps, undeliverable = tx_model(case)
    folds = {"f": [E.dt(case["fold"][0]), E.dt(case["fold"][1])]} if case["fold"] else None
    later = min(case.get("added_later", 0), len(case["grid"]) - 1)
    first = case["grid"][: len(case["grid"]) - later]
    tr = Transmitter([E.dt(g) for g in first], folds=folds, markov_reset=case["markov"],
                     warmup=timedelta(microseconds=case["warm_us"]) if case["warm_us"] else None)
    if case.get("segments"):
        import pandas as pd
        at = 0
        for how, k in case["segments"]:
            chunk = list(enumerate(case["evs"]))[at:at + k]
            at += k
            if how == "events":
                tr.add_events([E.Ping(E.dt(s), i) for i, s in chunk])
            else:
                tr.add_custom_events(pd.DataFrame({"uid": [i for i, _ in chunk], "value": [0.0] * len(chunk)},
                                                  index=pd.DatetimeIndex([E.dt(s) for _, s in chunk])), E.Ping)
        res.tag("bulk:%d-events" % (10 * (len(case["evs"]) // 10)))
        if any(h == "frame" and k > 16 for h, k in case["segments"]):
            res.tag("unsorted-frame-of-more-than-16-rows")
    else:
        tr.add_events([E.Ping(E.dt(s), i) for i, s in enumerate(case["evs"])])
    if later:
        tr.add_timesteps([E.dt(g) for g in case["grid"][len(case["grid"]) - later:]])
        res.tag("timesteps-added-after-the-events")
    tr._create_partitions(timedelta(microseconds=case["lat_us"]).total_seconds())
    fold = "f" if folds else "training-set"
    stats = {"latent": 0, "history": 0}
    sweeps = []
    L = case.get("episode_length")
    if L is not None and L > len(steps):
        L = None              # a length that does not fit is C15's business
    for sweep in range(2):
        if L is not None:
            np.random.seed(case["np_seed"])
            tr._reset(fold, L)
        else:
            tr._reset(fold)
        got = []
        while True:
            try:
                latent, nonlatent = tr._next()
            except StopIteration:
                break
            got.append(([e.uid for e in latent], [e.uid for e in nonlatent], E.us_of(tr._now())))
            if len(got) > len(grid) + 2:
                res.fail("transmitter produced more batches than grid points")
                return res
        sweeps.append(got)
    got = sweeps[0]
    if sweeps[1] != got:
        res.fail("second sweep over the same fold differs from the first")
    if L is not None:
        # the sampled start is read off the first batch; everything else follows from the model
        res.tag("episode-length")
        if not got:
            res.fail("an episode of %d timesteps fits the fold (%d steps) but nothing was delivered" % (L, len(steps)))
            return finish_tx(res, case, stats, undeliverable)
        starts = [k for k in steps if grid[k] == got[0][2]]
        if not starts or steps.index(starts[0]) + L > len(steps):
            res.fail("episode of %d timesteps starts at %s, not a position where it fits the fold" % (L, got[0][2]))
            return finish_tx(res, case, stats, undeliverable)
        i0 = steps.index(starts[0])
        steps = steps[i0:i0 + L]
        if i0 > 0:
            res.tag("episode-starts-inside-fold")
    if len(got) != len(steps):
        res.fail("%d batches delivered, model expects %d steps (event-bearing timesteps inside the fold)" % (len(got), len(steps)))
        return finish_tx(res, case, stats, undeliverable)
    for b, k in enumerate(steps):
        latent_ids, nonlatent_ids, now = got[b]
        if now != grid[k]:
            res.fail("batch %d is for timestep %s, model expects %s" % (b, now, grid[k]))
            break
        own_lat = [e[1] for e in ev if e[2] == k and e[3]]
        own_non = [e[1] for e in ev if e[2] == k and not e[3]]
        stats["latent"] += len(own_lat)
        if b == 0 and not case["markov"]:
            origin = grid[k] - case["warm_us"] if case["warm_us"] else -10 ** 30
            want = [e[1] for e in ev if origin <= grid[e[2]] <= grid[k]]
            stats["history"] += sum(1 for e in ev if origin <= grid[e[2]] < grid[k])
            if latent_ids + nonlatent_ids != want:
                res.fail("first batch delivers %s, model expects history+own slot in chronological order %s" % (latent_ids + nonlatent_ids, want))
                break
        elif b == 0:
            # at reset both lists are processed back to back: only their concatenation is observable
            if latent_ids + nonlatent_ids != own_lat + own_non:
                res.fail("first batch (markov reset) delivers %s, model expects exactly the first timestep's own events %s" % (
                    latent_ids + nonlatent_ids, own_lat + own_non))
                break
        else:
            if latent_ids != own_lat or nonlatent_ids != own_non:
                res.fail("batch %d (timestep index %d): latent %s / non-latent %s, model expects %s / %s" % (
                    b, k, latent_ids, nonlatent_ids, own_lat, own_non))
                break
    return finish_tx(res, case, stats, undeliverable)


def run_bulk(case):
    res = run_tx(case)
    res.nontrivial = len(case["evs"]) > len(set(case["evs"])) + 10
    return res


def finish_tx(res, case, stats, undeliverable):
    res.nontrivial = stats["latent"] > 0 and stats["history"] > 0 and undeliverable > 0
    if stats["latent"]:
        res.tag("latent")
    if stats["history"]:
        res.tag("history-replayed")
    if undeliverable:
        res.tag("undeliverable")
    if case["markov"]:
        res.tag("markov")
    if case["warm_us"]:
        res.tag("warm-up")
    if len(set(case["grid"])) != len(case["grid"]):
        res.tag("duplicate-grid-points")
    if case["fold"]:
        res.tag("fold")
    return res


# ------------------------------------------------------------------------------------------ environment

@st.composite
def env_cases(draw, tier="quick"):
    n = draw(st.integers(2, 8))
    # 31 / 28 / 30 / 365 days after 2019-01-02 land on the same day of the month (Feb 2, Mar 2, ...): sparse grids
    gaps = draw(st.lists(st.one_of(st.sampled_from([60 * US, 3600 * US, 86400 * US, 8 * 3600 * US, 3 * 86400 * US]), st.integers(2 * US, 100000 * US),
                                   st.sampled_from([31 * 86400 * US, 28 * 86400 * US, 30 * 86400 * US, 365 * 86400 * US])),
                         min_size=n, max_size=n))
    if draw(st.sampled_from([False, False, False, True])):
        gaps = [31 * 86400 * US, 28 * 86400 * US, 31 * 86400 * US, 30 * 86400 * US, 31 * 86400 * US, 30 * 86400 * US, 31 * 86400 * US, 31 * 86400 * US][:n]
    grid = []
    t = draw(st.sampled_from([0, 14 * 3600 * US, 5 * 3600 * US]))     # T0 is 09:30: offsets move date boundaries around
    for g in gaps:
        t += g
        grid.append(t)
    mingap = min(gaps[1:])
    lat = draw(st.sampled_from([0, 1, US, mingap // 2, mingap // 2, mingap - 1]))
    lat = max(0, min(lat, mingap - 1))
    bars = draw(st.lists(st.booleans(), min_size=n, max_size=n))
    if not any(bars):
        bars[draw(st.integers(0, n - 1))] = True
    events = []      # [time, kind('Q'|'P'), value]
    for gi in range(n):
        if bars[gi]:
            events.append([grid[gi], "Q", draw(st.sampled_from([1.0, 2.0, 4.0, 8.0]))])
    for _ in range(draw(st.integers(2, 14))):
        gi = draw(st.integers(0, n - 1))
        off = draw(st.sampled_from([-3 * US, -1, 0, 1, 1, lat - 1, lat, lat, lat + 1, mingap // 2, mingap // 3, 10 ** 6 * US]))
        kind = draw(st.sampled_from(["P", "P", "Q"]))
        events.append([grid[gi] + off, kind, draw(st.sampled_from([1.0, 3.0, 5.0, 0.5]))])
    if draw(st.sampled_from([True, True, True, False])):
        events.append([grid[-1] + draw(st.sampled_from([1, US, 86400 * US])), "P", 9.0])
    markov = draw(st.sampled_from([False, False, False, False, True]))
    if markov:
        events = [e for e in events if e[0] >= grid[0]]
    warm = draw(st.sampled_from([None, None, None, None, US, 3600 * US, 2 * 86400 * US, 30 * 86400 * US]))
    # every event-bearing slot needs an event exactly at its grid point
    have = {e[0] for e in events}
    for e in list(events):
        if e[0] <= grid[-1]:
            k = bisect.bisect_left(grid, e[0])
            if grid[k] not in have:
                events.append([grid[k], "P", 7.0])
                have.add(grid[k])
    events = draw(st.permutations(events))
    bearing = sorted({bisect.bisect_left(grid, e[0]) for e in events if e[0] <= grid[-1]})
    nf = draw(st.sampled_from([0, 1, 1, 2, 2]))
    folds = {}
    for f in range(nf):
        ia = draw(st.integers(min(1, len(bearing) - 1), len(bearing) - 1)) if draw(st.booleans()) else draw(st.integers(0, len(bearing) - 1))
        ib = draw(st.integers(ia, len(bearing) - 1))
        lo = grid[bearing[ia]] + draw(st.sampled_from([0, 0, -1, -US]))
        hi = grid[bearing[ib]] + draw(st.sampled_from([0, 0, 1, US]))
        folds["f%d" % f] = [lo, hi]
    names = list(folds) or ["training-set"]
    episodes = draw(st.lists(st.sampled_from(names), min_size=2, max_size=3))
    return {"grid": grid, "lat_us": lat, "events": [list(e) for e in events], "markov": markov, "warm_us": warm,
            "folds": folds, "episodes": episodes, "inherited_observer": draw(st.sampled_from([False, True])),
            "readd": draw(st.sampled_from([None, None, None, [0], [1, 2], [0, 0, 5]]))}


def env_model(case, fold):
    """Expected recorder log for one episode: list of (kind, ident, time_us, ntr)."""
    grid = case["grid"]
    lat = case["lat_us"]
    ev = []
    undeliverable = 0
    for i, (s, kind, val) in enumerate(case["events"]):
        if s > grid[-1]:
            undeliverable += 1
            continue
        k = bisect.bisect_left(grid, s)
        latent = k > 0 and (s - grid[k - 1]) <= lat
        ev.append((s, i, k, latent, kind, val))
    ev.sort(key=lambda e: (e[0], e[1]))
    lo, hi = case["folds"][fold] if fold in case["folds"] else (-10 ** 30, 10 ** 30)
    steps = sorted({e[2] for e in ev if lo <= grid[e[2]] <= hi})
    if not steps:
        return None
    k0 = steps[0]
    if case["markov"]:
        first = [e for e in ev if e[2] == k0]
    else:
        origin = grid[k0] - case["warm_us"] if case["warm_us"] else -10 ** 30
        first = [e for e in ev if origin <= grid[e[2]] <= grid[k0]]
    seq = []           # (kind, ident, time, ntr)
    state = {"last": None, "ntr": 0, "newdates": 0}

    def emit(kind, ident, t):
        if state["last"] is not None and E.dt(state["last"]).date() != E.dt(t).date():
            seq.append(("NEWDATE", None, state["last"], state["ntr"]))
            state["newdates"] += 1
        seq.append((kind, ident, t, state["ntr"]))
        state["last"] = t

    def emit_market(e):
        if e[4] == "Q":
            emit("Q", e[5], e[0])
        else:
            emit("P", e[1], e[0])

    calls = []      # index in seq where each call (reset, step1, ...) ends, and the expected now
    for e in first:
        emit_market(e)
    emit("RESET", None, state["last"])
    done = len(steps) == 1
    if done:
        emit("DONE", None, state["last"])
    calls.append((len(seq), state["last"]))
    hist = sum(1 for e in first if e[2] != k0)
    nlat = 0
    for j in range(1, len(steps)):
        k = steps[j]
        for e in ev:
            if e[2] == k and e[3]:
                emit_market(e)
                nlat += 1
        state["ntr"] += 1
        for e in ev:
            if e[2] == k and not e[3]:
                emit_market(e)
        emit("STEP", None, state["last"])
        if j == len(steps) - 1:
            emit("DONE", None, state["last"])
        calls.append((len(seq), state["last"]))
    book = None
    for e in first:
        if e[4] == "Q":
            book = e[5]
    return {"seq": seq, "calls": calls, "steps": steps, "undeliverable": undeliverable, "history": hist, "latent": nlat,
            "newdates": state["newdates"], "book_after_reset": book}


def run_env(case):
    res = Result()
    etf = ETF("A")
    rate = Rate("R")
    folds = {k: [E.dt(v[0]), E.dt(v[1])] for k, v in case["folds"].items()} or None
    tr = Transmitter([E.dt(g) for g in case["grid"]], folds=folds, markov_reset=case["markov"],
                     warmup=timedelta(microseconds=case["warm_us"]) if case["warm_us"] else None)
    events = []
    for i, (s, kind, val) in enumerate(case["events"]):
        events.append(EventNBBO(E.dt(s), etf, val, val) if kind == "Q" else E.Ping(E.dt(s), i, val))
    tr.add_events(events)
    state = E.InheritingRecState() if case.get("inherited_observer") else E.RecState()
    env = TradingEnv(action_space=BoxPortfolio([etf], low=-1.0, high=1.0), state=state, reward=RW.RewardSimpleReturn(),
                     transmitter=tr, initial_cash=100.0, broker_fees=BrokerFees(interest_rate=rate),
                     latency=timedelta(microseconds=case["lat_us"]).total_seconds(), steps_delay=0)
    if case.get("readd"):
        # timesteps that are already on the grid are registered once more after the environment was built
        tr.add_timesteps([E.dt(case["grid"][i % len(case["grid"])]) for i in case["readd"]])
        res.tag("timesteps-registered-again-after-build")
    agg = {"latent": 0, "history": 0, "undeliverable": 0, "newdates": 0, "later-fold-reset": 0}
    for ep, fold in enumerate(case["episodes"]):
        model = env_model(case, fold)
        if model is None:
            res.excluded = "fold-without-steps"
            break
        for key in ("latent", "history", "undeliverable", "newdates"):
            agg[key] += model[key]
        if ep > 0 and model["history"] and case["lat_us"] > 0:
            agg["later-fold-reset"] += 1
        env.reset(fold)
        got_calls = [(len(env.state.log), env.now())]
        book = env.exchange[etf]
        if model["book_after_reset"] is not None:
            if book.bid_price != model["book_after_reset"]:
                res.fail("episode %d: order book after reset shows %r, the chronologically last replayed quote is %r" % (
                    ep, book.bid_price, model["book_after_reset"]))
                return finish_env(res, case, agg)
        elif book.bid_price == book.bid_price or len(book.history["time"]) != 0:
            res.fail("episode %d: no quote was replayed at reset but the order book shows %r with %d historical quotes" % (
                ep, book.bid_price, len(book.history["time"])))
            return finish_env(res, case, agg)
        nsteps = len(model["steps"]) - 1
        for j in range(nsteps):
            try:
                obs, reward, done, info = env.step(np.zeros(1))
            except Exception as exc:  # noqa
                res.fail("episode %d step %d raised %s: %s" % (ep, j + 1, type(exc).__name__, str(exc)[:120]))
                return finish_env(res, case, agg)
            got_calls.append((len(env.state.log), env.now()))
            if done != (j == nsteps - 1):
                res.fail("episode %d step %d returned done=%s, the fold has %d timesteps" % (ep, j + 1, done, nsteps + 1))
                return finish_env(res, case, agg)
        if not env._done:
            res.fail("episode %d: environment not done after the fold's last timestep" % ep)
            return finish_env(res, case, agg)
        try:
            env.step(np.zeros(1))
            res.fail("episode %d: a step beyond the end of the episode was accepted" % ep)
            return finish_env(res, case, agg)
        except EndOfEpisodeError:
            pass
        got = [(k, i if k in ("P",) else (float.fromhex(i[1]) if k == "Q" else None), E.us_of(t), ntr) for (k, i, t, ntr, now) in env.state.log]
        want = model["seq"]
        # the statement, clause by clause, then the full sequence
        times = [g[2] for g in got]
        if any(b < a for a, b in zip(times, times[1:])):
            idx = next(i for i, (a, b) in enumerate(zip(times, times[1:])) if b < a)
            res.fail("episode %d: observers saw time go backwards: %s then %s (%s after %s)" % (
                ep, E.dt(times[idx]), E.dt(times[idx + 1]), got[idx + 1][0], got[idx][0]))
            return finish_env(res, case, agg)
        for (k, i, t, ntr, now) in env.state.log:
            if now != t:
                res.fail("episode %d: during the callback of %s stamped %s the contracts clock showed %s" % (ep, k, t, now))
                return finish_env(res, case, agg)
        if got != want:
            d = next((i for i, (a, b) in enumerate(zip(got, want)) if a != b), min(len(got), len(want)))
            res.fail("episode %d (fold %s): callback #%d is %s, model expects %s [kind, payload, time_us, executed decisions] (%d callbacks seen, %d expected)" % (
                ep, fold, d, got[d] if d < len(got) else None, want[d] if d < len(want) else None, len(got), len(want)))
            return finish_env(res, case, agg)
        for c, ((n_got, now_got), (n_want, now_want)) in enumerate(zip(got_calls, model["calls"])):
            if n_got != n_want or E.us_of(now_got) != now_want:
                res.fail("episode %d: after call %d env.now() is %s with %d callbacks, model expects %s with %d" % (
                    ep, c, now_got, n_got, E.dt(now_want), n_want))
                return finish_env(res, case, agg)
    return finish_env(res, case, agg)


def finish_env(res, case, agg):
    res.nontrivial = agg["latent"] > 0 and agg["history"] > 0 and agg["undeliverable"] > 0 and agg["newdates"] > 0
    for k, v in agg.items():
        if v:
            res.tag(k)
    if case["markov"]:
        res.tag("markov")
    if case["warm_us"]:
        res.tag("warm-up")
    if case["folds"]:
        res.tag("folds")
    if case.get("inherited_observer"):
        res.tag("observer-inherits-callbacks")
    return res


def _at_ruin_cases(tier):
    from props import c09
    return c09.cases(tier)


def _at_ruin(case):
    # Delivery in the step that ends an episode by insolvency (scenario generator and ledger shared with C09): the step
    # must still hand out the market events of the timestep it lands on - clock and exchange stand at its latest event.
    from props import c09
    return c09.run_env(case)


PARTS = [
    Part("transmitter", strategy=lambda tier: tx_cases(tier), run=run_tx, quick=16000, thorough=400000),
    Part("environment", strategy=lambda tier: env_cases(tier), run=run_env, quick=8000, thorough=200000),
    Part("bulk", strategy=lambda tier: bulk_cases(tier), run=run_bulk, quick=1500, thorough=60000),
    Part("at-ruin", strategy=_at_ruin_cases, run=_at_ruin, quick=1500, thorough=40000),
]
