"""C12 Trade filtering: threshold, liquidations and whole lots."""
import math

from hypothesis import strategies as st

from vlib.runner import Part, Result
from vlib import brokerlab as B
from tradingenv.broker.broker import EndOfEpisodeError
from tradingenv.broker.rebalancing import Rebalancing
from tradingenv.contracts import Cash

ID = "C12"
RULE = ("dyadic: account of NLV 1024/4096 with prior holdings w_i*NLV/(p*M) (weights multiples of 1/16, prices and multipliers powers of "
        "two, no spread, so every quantity is exact); then Rebalancing(targets multiples of 1/16 or lots multiples of 1/4, margin=thr in "
        "{0,1/16,1/8,1/4,1/2}, fractional or whole-lot).make_trades(broker) is compared EXACTLY with an independent trade-set model: trade iff "
        "imbalance != 0 and (|imbalance weight| >= thr or held-but-absent/zero in target); whole lots: trunc toward zero, zero lots skipped, "
        "no exception. free: arbitrary prices/spreads/fees, one prior rebalance, quote moves, targets = prior weights +- nudges; cases inside "
        "the indifference band (|w_imb| within 1e-9 of thr, lot imbalance within 1e-9 of an integer) are excluded and counted. "
        "Non-trivial = a contract exactly at the threshold, or a liquidation below the threshold, or a lot imbalance in (-1,1).")
ASSUMPTIONS = [
    "in whole-lot mode the threshold is applied to the weight of the untruncated imbalance (the statement's 'its imbalance weight'); the traded "
    "quantity is the truncation of that imbalance; cases where truncated and untruncated weights fall on different sides of the threshold are a "
    "coverage class (truncation-crosses-threshold)",
    "dyadic part compares quantities with ==; free part rel 1e-9",
    "thresholds from {0, 1/16, 1/8, 1/4, 1/2} (dyadic) / {0, 0.05, 0.125, 0.25, 0.5} (free)",
]

SIXTEENTHS = [k / 16.0 for k in range(-16, 17)]


@st.composite
def dyadic_cases(draw, tier="quick"):
    n = draw(st.integers(1, 3))
    specs = []
    for i in range(n):
        specs.append({"kind": draw(st.sampled_from(["uspot", "umargin"])),
                      "mult": draw(st.sampled_from([0.5, 1.0, 2.0, 8.0])),
                      "margin": draw(st.sampled_from([0.25, 0.5, 1.0])),
                      "p0": draw(st.sampled_from([4.0, 8.0, 16.0, 32.0, 64.0, 128.0])), "s0": 0.0})
    deposit = draw(st.sampled_from([1024.0, 4096.0]))
    prior = draw(st.lists(st.sampled_from([0.0, 0.0] + SIXTEENTHS), min_size=n, max_size=n))
    measure = draw(st.sampled_from(["weight", "weight", "nr-contracts"]))
    thr = draw(st.sampled_from([0.0, 0.0625, 0.125, 0.25, 0.5]))
    targets = []
    for i in range(n):
        kind = draw(st.sampled_from(["near", "near", "free", "none", "zero"]))
        if kind == "none":
            targets.append(None)
        elif kind == "zero":
            targets.append(0.0)
        elif measure == "weight":
            if kind == "near":
                # imbalance weight exactly at / one notch around the threshold
                d = draw(st.sampled_from([thr, -thr, thr + 0.0625, -(thr + 0.0625), thr - 0.0625, 0.0625, -0.0625]))
                targets.append(prior[i] + d)
            else:
                targets.append(draw(st.sampled_from(SIXTEENTHS)))
        else:
            q_prior = prior[i] * deposit / (specs[i]["p0"] * specs[i]["mult"])
            if kind == "near":
                targets.append(q_prior + draw(st.sampled_from([-1.0, -0.75, -0.5, -0.25, 0.25, 0.5, 0.75, 1.0, 1.25, -1.25, 2.0, -2.5])))
            else:
                targets.append(draw(st.integers(-64, 64)) / 4.0)
    return {"contracts": specs, "deposit": deposit, "prior": prior, "targets": targets, "measure": measure,
            "thr": thr, "fractional": draw(st.booleans()), "cash_entry": draw(st.booleans()),
            "fees": [0.0, 0.0], "rate": 0.0, "markup": 0.0, "ops": [],
            "open_order": draw(st.permutations(list(range(n)))), "request_order": draw(st.permutations(list(range(n)))),
            "via_space": draw(st.sampled_from([False, False, True]))}


@st.composite
def free_cases(draw, tier="quick", wide=False):
    specs = draw(B.contract_specs(min_n=5, max_n=10)) if wide else draw(B.contract_specs(max_n=3))
    n = len(specs)
    prior = draw(st.lists(st.one_of(st.just(0.0), st.floats(-1.0, 1.0), st.sampled_from([0.25, 0.5, -0.5])), min_size=n, max_size=n))
    thr = draw(st.sampled_from([0.0, 0.05, 0.125, 0.25, 0.5]))
    targets = []
    for i in range(n):
        kind = draw(st.sampled_from(["nudge", "nudge", "free", "none", "zero"]))
        if kind == "none":
            targets.append(None)
        elif kind == "zero":
            targets.append(0.0)
        elif kind == "nudge":
            base = draw(st.sampled_from([thr, -thr, 0.0]))
            targets.append(prior[i] + base + draw(st.sampled_from([-1e-3, 1e-3, 0.01, -0.01, 0.1, -0.1])))
        else:
            targets.append(draw(st.floats(-1.5, 1.5)))
    measure = draw(st.sampled_from(["weight", "weight", "nr-contracts"]))
    if measure == "nr-contracts":
        targets = [None if t is None else round(t * 40, 3) for t in targets]
    moves = draw(st.lists(st.tuples(st.floats(0.9, 1.1), B.spreads()), min_size=n, max_size=n))
    return {"contracts": specs, "deposit": draw(st.sampled_from([100.0, 1e4, 12345.678])), "prior": prior,
            "targets": targets, "measure": measure, "thr": thr, "fractional": draw(st.booleans()),
            "cash_entry": draw(st.booleans()), "fees": list(draw(B.fee_schedules())), "rate": 0.0, "markup": 0.0,
            "moves": [list(m) for m in moves], "ops": [],
            "open_order": draw(st.permutations(list(range(n)))), "request_order": draw(st.permutations(list(range(n)))),
            "via_space": draw(st.sampled_from([False, False, True]))}


def expected_trades(lab, case, nlv, exact):
    """Independent recomputation of the trade set. Returns {i: ("trade", qty) | ("none",) | ("either", qty)}
    plus flags for the non-trivial rule."""
    led = lab.ledger
    thr = case["thr"]
    out = {}
    flags = set()
    band = False
    for i in range(lab.n):
        w = case["targets"][i]
        q = led.q[i]
        M = lab.mult[i]
        in_target = w is not None and w != 0
        if in_target:
            if case["measure"] == "weight":
                px = led.ask[i] if w > 0 else led.bid[i]
                tq = w * nlv / px / M
            else:
                tq = w
        else:
            tq = 0.0
        imb = tq - q
        if imb == 0:
            out[i] = ("none",)
            continue
        px_imb = led.ask[i] if imb > 0 else led.bid[i]
        w_imb = M * imb * px_imb / nlv
        liquidation = (q != 0) and not in_target
        qty = imb
        verdict = None
        if not case["fractional"]:
            qty = float(math.trunc(imb))
            if not exact and abs(imb - round(imb)) <= 1e-9 * max(1.0, abs(imb)):
                band = True
            if abs(imb) < 1:
                flags.add("lot-imbalance-in-(-1,1)")
            if qty == 0:
                out[i] = ("none",)
                continue
            # The statement speaks of "its imbalance weight" and of "truncating the imbalance": the threshold applies to
            # the weight of the (untruncated) imbalance, the traded quantity is its truncation.
            w_trunc = M * qty * px_imb / nlv
            if not liquidation and (abs(w_imb) >= thr) != (abs(w_trunc) >= thr):
                flags.add("truncation-crosses-threshold")
        if not exact and thr > 0 and abs(abs(w_imb) - thr) <= 1e-9 * max(1.0, thr):
            band = True
        if abs(w_imb) == thr and thr > 0:
            flags.add("exactly-at-threshold")
        if liquidation and abs(w_imb) < thr:
            flags.add("liquidation-below-threshold")
        if verdict is None:
            verdict = ("trade", qty) if (abs(w_imb) >= thr or liquidation) else ("none",)
        out[i] = verdict
    return out, flags, band


def run_filter(case, exact):
    res = Result()
    lab = B.Lab(case)
    led, br, n = lab.ledger, lab.broker, lab.n
    # prior holdings
    open_order = case.get("open_order") or list(range(n))
    if exact:
        for i in open_order:                      # positions are opened in a generated order
            w = case["prior"][i]
            if w != 0:
                lab.transact(i, w * case["deposit"] / (case["contracts"][i]["p0"] * lab.mult[i]))
    else:
        prior = []
        for i, w in enumerate(case["prior"]):
            # prior positions inside the documented epsilon snapping band are outside the domain
            tiny = abs(w) * case["deposit"] / (case["contracts"][i]["p0"] * lab.mult[i]) < 10 * B.QMIN
            prior.append(None if (w == 0 or tiny) else w)
        reb0 = lab.rebalancing(prior, "weight", 60, order=open_order)
        try:
            br.rebalance(reb0)
        except EndOfEpisodeError:
            res.excluded = "prior-rebalance-ruined"
            return res
        lab.apply_recorded_trades(reb0)
        for i, (mv, sp) in enumerate(case["moves"]):
            lab.send_quote(i, lab.mid[i] * mv, sp)
    nlv = led.nlv()
    if not nlv > 1e-6 * led.scale():
        res.excluded = "insolvent"
        return res
    if exact and nlv != case["deposit"]:
        raise AssertionError("dyadic construction lost exactness: NLV %r" % nlv)
    model, flags, band = expected_trades(lab, case, nlv, exact)
    if band:
        res.excluded = "indifference-band"
        return res
    req = [i for i in (case.get("request_order") or list(range(n))) if case["targets"][i] is not None]   # listed in a generated order
    cs = [lab.contracts[i] for i in req]
    ws = [case["targets"][i] for i in req]
    if case["cash_entry"]:
        cs = cs + [lab.cash]
        ws = ws + [0.25]
    if case.get("via_space") and cs:
        # the same request built the way TradingEnv builds it: through a portfolio space
        import numpy as np
        from tradingenv.spaces import BoxPortfolio
        space = BoxPortfolio(cs, low=-1e9, high=1e9, as_weights=(case["measure"] == "weight"), fractional=case["fractional"], margin=case["thr"])
        reb = space.make_rebalancing_request(np.array(ws, dtype=float), lab.now + B.timedelta(seconds=5), br)
        res.tag("request-built-by-a-portfolio-space")
    else:
        reb = Rebalancing(contracts=cs, allocation=ws, measure=case["measure"], margin=case["thr"],
                          fractional=case["fractional"], time=lab.now + B.timedelta(seconds=5))
    q_before = [lab.code_q(i) for i in range(n)]
    try:
        trades = reb.make_trades(br)
    except Exception as exc:  # the statement: sub-lot imbalances "are skipped rather than failing"
        res.fail("make_trades raised %s: %s" % (type(exc).__name__, str(exc)[:160]))
        trades = None
    if trades is not None:
        if [lab.code_q(i) for i in range(n)] != q_before:
            res.fail("make_trades changed the broker's positions")
        seen = {}
        for tr in trades:
            if isinstance(tr.contract, Cash):
                res.fail("a trade on the cash contract was produced")
                continue
            i = lab.index_of(tr.contract)
            if i in seen:
                res.fail("two trades for contract %d" % i)
            seen[i] = tr.quantity
            if tr.quantity == 0 or tr.quantity != tr.quantity:
                res.fail("zero/NaN-sized trade for contract %d" % i)
            if not case["fractional"] and float(tr.quantity) != float(int(tr.quantity)):
                res.fail("whole-lot mode produced a fractional quantity %r for contract %d" % (tr.quantity, i))
            if tr.bid_price != led.bid[i] or tr.ask_price != led.ask[i]:
                res.fail("trade for contract %d carries quotes %r/%r, book is %r/%r" % (i, tr.bid_price, tr.ask_price, led.bid[i], led.ask[i]))
        for i in range(n):
            want = model[i]
            got = seen.get(i)
            if want[0] == "none":
                if got is not None:
                    res.fail("contract %d: a trade of %r was emitted, the model says none (thr=%r, lots=%s)" % (i, got, case["thr"], not case["fractional"]))
            elif want[0] == "trade":
                if got is None:
                    res.fail("contract %d: no trade emitted, the model expects %r (thr=%r, lots=%s)" % (i, want[1], case["thr"], not case["fractional"]))
                elif (got != want[1]) if exact else (not B.close(got, want[1], rel=1e-9, abs_=1e-12)):
                    res.fail("contract %d: traded quantity %r, the model expects %r" % (i, got, want[1]))
            else:  # either
                if got is not None and got != want[1]:
                    res.fail("contract %d: traded quantity %r, truncation gives %r" % (i, got, want[1]))
    res.nontrivial = bool(flags)
    for f in flags:
        res.tag(f)
    res.tag("lots" if not case["fractional"] else "fractional", case["measure"], "thr=%g" % case["thr"])
    held_set = {i for i in range(n) if led.q[i] != 0}
    tgt_set = {i for i in range(n) if case["targets"][i] not in (None, 0.0)}
    if len(held_set) >= 2 and held_set == tgt_set and [i for i in open_order if i in held_set] != [i for i in req if i in tgt_set]:
        res.tag("same-contracts-held-and-targeted-in-different-order")
    return res


PARTS = [
    Part("dyadic", strategy=lambda tier: dyadic_cases(tier), run=lambda c: run_filter(c, True), quick=5000, thorough=300000),
    Part("free", strategy=lambda tier: free_cases(tier), run=lambda c: run_filter(c, False), quick=3000, thorough=200000),
    Part("wide", strategy=lambda tier: free_cases(tier, wide=True), run=lambda c: run_filter(c, False), quick=800, thorough=60000),   # 5-10 contracts
]
