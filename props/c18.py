"""C18 The tabular environment (TradingEnvXY) serves exactly the data it was given.

One part, `xy`: xylab draws feature / price / rate tables (calendar-daily or exchange-shaped, NaNs,
shifted or sparser feature index) and a TradingEnvXY configuration; the environment is reset into
a fold and driven to the end of the episode (optionally a second episode on the same object).
At reset and after every step an oracle that reads only the published tables `env.X`, `env.Y`,
the *input* tables and the holidays of pandas_market_calendars checks observation, quotes, rate
and step date. Once per case the published feature table is compared with the input features
(values, forward fill, clip).
"""
import math

import numpy as np
import pandas as pd

from hypothesis import strategies as st
from vlib.runner import Part, Result
from vlib import xylab
from tradingenv.contracts import Rate

ID = "C18"
RULE = ("xylab.cases: calendar in NYSE/LSE/SSE/24-7, origin placed so that a closure (Sept 2001, Sandy, Golden Week, "
        "Chinese New Year, Easter, Christmas/New Year ...) usually falls inside the tables; Y 30-150 rows x 1-3 assets "
        "(bounded multiplicative moves, NaN cells and NaN runs), calendar-daily or exchange-shaped (no rows on closed days, "
        "optionally single rows and a block of rows removed); X 1-4 features on the same / other range / sparser index with "
        "NaNs, scale, offset and a regime change; rate series same/sparse/shifted or None; window 1-30 (biased <= 6), stride "
        "None or 1..window, transformer None/z-score/yeo-johnson(10%) or (one z-score case in three) a StandardScaler the caller fitted beforehand on the first k>=8 feature rows, transformer_end, clip in {0.125..5}, spread in "
        "{0, 0.0002, 0.01}, start/end bounds, two folds with the test fold starting preferably right after a gap of rows, "
        "episode_length, steps_delay 0/1, small in-bounds target weights. "
        "Non-trivial = (window >= 2 and an episode starts right after a gap of >= 3 calendar days between rows of env.X) "
        "or a price is NaN at a step date or stride >= 2.")
ASSUMPTIONS = [
    "observation compared bitwise with env.X.loc[:now].iloc[-window:].values[::-stride][::-1]; quotes rel 1e-12; rate exact",
    "declared bound of the observation space is 5 (State max_=5); documented clip: |env.X| <= clip <= 5",
    "published table versus input: env.X[t] = clip(transform(input X[t])) where the input has a value (exact for transformer "
    "None, 1e-9 for z-score recomputed with numpy nan-mean/std over X.loc[:transformer_end or end], order-preserving for "
    "yeo-johnson), and equals the previous published row where the input is missing (forward fill, 0 before any value)",
    "holidays are those of pandas_market_calendars.get_calendar(cal).holidays(); weekends are not holidays",
    "'a full window is available' is read on both tables: len(env.X.loc[:now]) >= window, and at least `window` non-holiday "
    "rows of env.Y precede the step (anchor: _make_timesteps skips the first `window` dates)",
    "a price missing at a step leaves the most recent given price delivered since the episode start in the book, "
    "otherwise any earlier given price or no quote; same for the rate, whose book starts at the 0 seed",
    "rate series has no NaN and at least two rows (TradingEnvXY rejects NaN rates and squeezes one-row series)",
    "actions are small in-bounds weights, zero for assets without a quote; the account never goes broke",
]


def _rel(a, b, tol=1e-12):
    return abs(a - b) <= tol * max(abs(a), abs(b))


class Oracle:
    def __init__(self, case, tables, env, res):
        self.case, self.env, self.res = case, env, res
        self.X_in, self.Y_in, self.rate_in = tables["X"], tables["Y"], tables["rate"]
        self.hol = xylab.holidays(case["cal"])
        self.window, self.stride = case["window"], case["stride"]
        self.spread = case["spread"]
        self.contracts = list(env.Y.columns)
        self.cols = list(self.Y_in.columns)
        self.lo = None if case["start"] is None else xylab.day(case, case["start"])
        self.hi = None if case["end"] is None else xylab.day(case, case["end"])
        self.folds = xylab.fold_dates(case)
        self.rate_contract = Rate(xylab.RATE_NAME if self.rate_in is not None else "Zero Rate")
        self.nan_at_step = False
        self.after_gap = False
        self.steps = 0
        m = self.window if not self.stride else math.ceil(self.window / self.stride)
        self.shape = (m, case["nx"])
        # non-holiday rows of the published price table, for the warm-up margin
        # Price rows carrying a time of day on a holiday date used to be served (defect D12, repaired in /repo by
        # 01087c8); the holiday rule is asserted for every row, whatever its time of day.
        self.timed_holiday_rows = any(t.date() in self.hol and t != t.normalize() for t in self.Y_in.index)
        self.y_open = [t for t in env.Y.index if not self.is_holiday(t)]

    def is_holiday(self, t):
        return t.date() in self.hol

    def fail(self, text):
        self.res.fail(text)

    # ------------------------------------------------------------------ once per case
    def check_published(self):
        env, case = self.env, self.case
        X_in, Y_in = self.X_in, self.Y_in
        EY = env.Y
        # published prices are the given prices
        if not EY.index.isin(Y_in.index).all():
            self.fail("env.Y has dates that are not in the given price table")
            return
        sub = Y_in.loc[EY.index[0]:EY.index[-1]]
        if len(sub) != len(EY) or not np.array_equal(sub.values, EY.values, equal_nan=True):
            self.fail("env.Y is not the given price table between %s and %s" % (EY.index[0], EY.index[-1]))
        if self.lo is not None and EY.index[0] < self.lo:
            self.fail("env.Y starts %s before the start bound %s" % (EY.index[0], self.lo))
        if self.hi is not None and EY.index[-1] > self.hi:
            self.fail("env.Y ends %s after the end bound %s" % (EY.index[-1], self.hi))
        # published features against the input features
        EX = env.X
        last_valid = Y_in.dropna(how="all").index[-1]
        end_eff = last_valid if self.hi is None else min(self.hi, last_valid)
        Xu = X_in.reindex(X_in.index.union(Y_in.index)).loc[:end_eff]
        if not EX.index.is_monotonic_increasing or not EX.index.is_unique:
            self.fail("env.X index is not strictly increasing")
            return
        if len(EX) > len(Xu) or not EX.index.equals(Xu.index[len(Xu) - len(EX):]):
            self.fail("env.X rows are not the most recent dates of the union of the feature and price dates up to %s" % end_eff)
            return
        E = EX.values
        if E.shape[1] != case["nx"] or not np.isfinite(E).all():
            self.fail("env.X has non-finite entries or a wrong number of columns")
            return
        if np.abs(E).max() > case["clip"]:
            self.fail("published feature %r exceeds clip=%r" % (float(np.abs(E).max()), case["clip"]))
        off = len(Xu) - len(EX)
        R = Xu.values[off:]
        miss = np.isnan(R)
        # forward fill: a missing input repeats the previous published row
        rows, cols = np.nonzero(miss[1:])
        bad = [(i + 1, j) for i, j in zip(rows, cols) if E[i + 1, j] != E[i, j]]
        if bad:
            i, j = bad[0]
            self.fail("input feature %s is missing on %s but env.X shows %r, the previous published row shows %r "
                      "(not a forward fill)" % (EX.columns[j], EX.index[i], float(E[i, j]), float(E[i - 1, j])))
        for j in np.nonzero(miss[0])[0]:
            if np.isnan(Xu.values[:off + 1, j]).all() and E[0, j] != 0.0:
                self.fail("feature %s has no value up to %s but env.X shows %r instead of 0" % (EX.columns[j], EX.index[0], float(E[0, j])))
        # values where the input is present
        c = case["clip"]
        if case["transformer"] is None:
            want = np.clip(R, -c, c)
            ok = miss | (E == want)
        elif case["transformer"] == "z-score" or isinstance(case["transformer"], list):
            te = end_eff if case["transformer_end"] is None else xylab.day(case, case["transformer_end"])
            fit = X_in.loc[:te].values
            if isinstance(case["transformer"], list):
                fit = X_in.iloc[:case["transformer"][1]].values        # the caller's own fit sample
            mu = np.nanmean(fit, axis=0)
            sd = np.nanstd(fit, axis=0)
            sd = np.where(sd < 1e-300, 1.0, sd)
            want = np.clip((R - mu) / sd, -c, c)
            with np.errstate(invalid="ignore"):
                ok = miss | (np.abs(E - want) <= 1e-9 * np.maximum(1.0, np.abs(want)))
        else:
            ok = np.ones_like(miss)
            for j in range(R.shape[1]):
                v = ~miss[:, j]
                order = np.argsort(R[v, j], kind="stable")
                if (np.diff(E[v, j][order]) < 0).any():
                    self.fail("power-transformed feature %s is not order-preserving" % EX.columns[j])
        if not ok.all():
            i, j = [int(k[0]) for k in np.nonzero(~ok)]
            self.fail("env.X[%s, %s]=%r but clip(transform(input %r)) = %r" % (
                EX.index[i], EX.columns[j], float(E[i, j]), float(R[i, j]), float(want[i, j])))

    # ------------------------------------------------------------------ at reset and after every step
    def begin_episode(self, fold):
        self.fold = fold
        self.first = None
        self.prev = None

    def check(self, obs):
        env, case, w = self.env, self.case, self.window
        now = env.now()
        self.steps += 1
        if self.first is None:
            self.first = now
        tag = "%s (episode from %s)" % (now, self.first)
        # --- step date
        if self.prev is not None and not now > self.prev:
            self.fail("time did not advance: %s after %s" % (now, self.prev))
        self.prev = now
        in_y = now in env.Y.index and now in self.Y_in.index
        if not in_y:
            self.fail("step at %s which is not a date of the price table" % tag)
        if self.is_holiday(now):
            self.fail("step at %s which is a %s holiday" % (tag, case["cal"]))
        if self.lo is not None and now < self.lo:
            self.fail("step at %s before the start bound %s" % (tag, self.lo))
        if self.hi is not None and now > self.hi:
            self.fail("step at %s after the end bound %s" % (tag, self.hi))
        if self.folds is not None:
            a, b = self.folds[self.fold]
            if not (a <= now <= b):
                self.fail("step at %s outside fold %s [%s, %s]" % (tag, self.fold, a, b))
        avail = env.X.loc[:now]
        if len(avail) < w:
            self.fail("step at %s with %d published feature rows, window is %d" % (tag, len(avail), w))
        n_open = sum(1 for t in self.y_open if t < now)
        if n_open < w:
            self.fail("step at %s preceded by only %d non-holiday price dates, window is %d" % (tag, n_open, w))
        # --- observation
        exp = avail.iloc[-w:].values
        if self.stride:
            exp = exp[::-self.stride][::-1]
        obs = np.asarray(obs)
        if obs.shape != env.observation_space.shape or obs.shape != self.shape:
            self.fail("observation shape %s at %s, declared %s, window/stride give %s" % (
                obs.shape, tag, env.observation_space.shape, self.shape))
        elif not env.observation_space.contains(obs) or not (np.abs(obs) <= xylab.OBS_BOUND).all():
            self.fail("observation at %s outside the declared bounds" % tag)
        if obs.shape != exp.shape or not np.array_equal(obs, exp):
            self.fail("observation at %s is not the last %d rows (stride %s) of env.X up to that date:\nobs=%s\nexpected=%s" % (
                tag, w, self.stride, np.array2string(obs, threshold=40), np.array2string(exp, threshold=40)))
        if self.steps == 1 or now == self.first:
            pos = env.X.index.searchsorted(now)
            if w >= 2 and pos >= 1 and (now - env.X.index[pos - 1]).days >= 3:
                self.after_gap = True
        if not in_y:
            return
        # --- quotes
        hs = self.spread / 2
        for col, contract in zip(self.cols, self.contracts):
            book = env.exchange[contract]
            p = float(self.Y_in.at[now, col])
            if not np.isnan(p):
                if not (_rel(book.bid_price, p - p * hs) and _rel(book.ask_price, p + p * hs)):
                    self.fail("%s at %s quoted %r : %r, given price %r with spread %r gives %r : %r" % (
                        col, tag, book.bid_price, book.ask_price, float(p), self.spread, float(p - p * hs), float(p + p * hs)))
                continue
            self.nan_at_step = True
            seen = self.Y_in[col].loc[self.first:now].dropna()
            if len(seen):
                q = float(seen.iloc[-1])
                if not (_rel(book.bid_price, q - q * hs) and _rel(book.ask_price, q + q * hs)):
                    self.fail("%s has no price at %s; book %r : %r is not the most recent given price %r (%s)" % (
                        col, tag, book.bid_price, book.ask_price, float(q), seen.index[-1].date()))
            elif not (np.isnan(book.bid_price) and np.isnan(book.ask_price)):
                old = env.Y[contract].loc[:now].dropna().values.astype(float)
                if not any(_rel(book.bid_price, q - q * hs) and _rel(book.ask_price, q + q * hs) for q in old):
                    self.fail("%s has no price at %s; book %r : %r is not an earlier given price" % (
                        col, tag, book.bid_price, book.ask_price))
        # --- rate
        book = env.exchange[self.rate_contract]
        bid, ask = book.bid_price, book.ask_price
        r = self.rate_in
        if r is None:
            if not (bid == 0.0 and ask == 0.0):
                self.fail("no rate given but the rate book shows %r : %r at %s" % (bid, ask, tag))
        else:
            seen = r.loc[self.first:now]
            if len(seen):
                v = seen.iloc[-1]
                if not (bid == v and ask == v):
                    what = "at that date" if seen.index[-1] == now else "most recently on %s" % seen.index[-1].date()
                    self.fail("rate book %r : %r at %s, the given rate %s is %r" % (bid, ask, tag, what, float(v)))
            else:
                old = r.loc[:now].values
                if not (bid == ask and (bid == 0.0 or (old == bid).any())):
                    self.fail("rate book %r : %r at %s is neither an earlier given rate nor the 0 seed" % (bid, ask, tag))

    def action(self, k):
        w = np.array(self.case["weights"][k % len(self.case["weights"])], dtype=float)
        for i, contract in enumerate(self.contracts):
            if np.isnan(self.env.exchange[contract].bid_price):
                w[i] = 0.0
        return w


def bucket(w):
    return "window=1" if w == 1 else "window=2" if w == 2 else "window=3" if w == 3 else \
        "window=4-6" if w <= 6 else "window=7-30"


def closure_tags(case):
    """Classes describing the calendar inside the range of the price table."""
    from datetime import date, timedelta
    hol = xylab.holidays(case["cal"])
    base = date.fromisoformat(case["y0"])
    d0, d1 = math.floor(case["y_days"][0]), math.floor(case["y_days"][-1])
    tags = []
    run = best = 0
    has_h = False
    any_h = False
    for d in range(d0, d1 + 1):
        dt = base + timedelta(days=d)
        h = dt in hol
        closed = h or (case["cal"] != "24/7" and dt.weekday() >= 5)
        if closed:
            run += 1
            has_h = has_h or h
            if has_h:
                best = max(best, run)
        else:
            run = 0
            has_h = False
        any_h = any_h or h
    if any_h:
        tags.append("holiday-in-range")
    if best >= 3:
        tags.append("closure>=3d-in-range")
    if best >= 5:
        tags.append("closure>=5d-in-range")
    return tags


def run_xy(case):
    res = Result()
    tables = xylab.tables_from_case(case)
    env = xylab.build_env(case, tables)
    orc = Oracle(case, tables, env, res)
    res.tag("cal=" + case["cal"], "shape=" + case["shape"], "transformer=%s" % ("caller-fitted" if isinstance(case["transformer"], list) else case["transformer"]),
            bucket(case["window"]), "x=" + case["x_mode"],
            "stride=None" if case["stride"] is None else "stride=1" if case["stride"] == 1 else "stride>=2",
            "spread=%g" % case["spread"], "rate=%s" % ("none" if case["rate_days"] is None else "given"))
    res.tag(*closure_tags(case))
    if case.get("y_flat"):
        res.tag("flat-price-run")
    if case.get("rate_step") and case.get("rate_days") is not None:
        res.tag("piecewise-constant-rate")
    if case.get("y_dtype"):
        res.tag("prices=" + case["y_dtype"])
    if case["folds"] is not None:
        res.tag("fold=" + case["fold"])
    if case["episode_length"] is not None:
        res.tag("episode-length")
    if case["start"] is not None or case["end"] is not None:
        res.tag("start/end-bound")
    if case["clip"] < 5:
        res.tag("clip<5")
    if case.get("intraday"):
        res.tag("intraday=" + case["intraday"])
    if orc.timed_holiday_rows:
        res.tag("intraday-rows-on-holiday-dates")
    orc.check_published()
    k = 0
    for nr, fold in enumerate([case["fold"], case["fold2"]]):
        if fold is None:
            continue
        if nr == 1:
            res.tag("second-episode")
        orc.begin_episode(fold)
        obs = env.reset() if case["folds"] is None else env.reset(fold)
        orc.check(obs)
        kept = [(str(env.now()), obs, np.array(obs, copy=True))]      # what a caller who keeps observations holds
        done = False
        while not done and not res.violations:
            obs, reward, done, info = env.step(orc.action(k))
            k += 1
            orc.check(obs)
            kept.append((str(env.now()), obs, np.array(obs, copy=True)))
        if res.violations:
            break
        for when, ob, then in kept:
            if ob.tobytes() != then.tobytes():
                res.fail("the observation returned at %s was the last rows of env.X then, but the same object shows other rows after later steps "
                         "(returned observations share memory): %s -> %s" % (when, then.ravel()[:4], ob.ravel()[:4]))
                break
        if res.violations:
            break
    if orc.after_gap:
        res.tag("start-after-gap")
    if orc.nan_at_step:
        res.tag("price-nan-at-step")
    res.nontrivial = bool(orc.after_gap or orc.nan_at_step or (case["stride"] or 0) >= 2)
    return res


@st.composite
def cases18(draw, tier="quick"):
    c = draw(xylab.cases(tier, bias=draw(st.sampled_from([None, None, "gappy-intraday"]))))
    if c["transformer"] == "z-score" and draw(st.sampled_from([False, False, True])):
        # the same scaler, but fitted by the caller beforehand on a shorter sample of its own choosing
        k = draw(st.integers(8, max(8, len(c["x_days"]))))
        X = xylab.tables_from_case(c)["X"].iloc[:k]
        if len(X) >= 8 and bool((X.notna().sum() >= 2).all()):
            c["transformer"] = ["fitted", k]
    return c


PARTS = [Part("xy", strategy=lambda tier: cases18(tier), run=run_xy, quick=1440, thorough=24000)]


# ------------------------------------------------------------------------------------------------
# Candidate finding (not in known_findings.json at the time of writing; the probe is wired under a
# provisional id so that it can be listed there as status "known").
#
# Sentence of the property: "steps occur only on dates present in the price table that are not
# exchange holidays", quantified over "daily (or finer)" tables. TradingEnvXY._make_timesteps drops
# `[t for t in holidays if t in Y.index]`, i.e. only rows stamped exactly at midnight of a holiday; a
# 12-hourly price table gets a step at 2019-12-25 12:00 (NYSE) while the 2019-12-25 00:00 row is dropped.
# The generator produces such tables (intraday rows, calendar-daily shape); those cases are counted in
# `excluded` and the holiday rule is applied to their midnight rows only.

def probe_intraday_holiday():
    from tradingenv.env import TradingEnvXY
    idx = pd.date_range("2019-12-20", periods=24, freq="12h")
    Y = pd.DataFrame({"A": 100.0 + np.arange(24.0)}, index=idx)
    X = pd.DataFrame({"f0": np.arange(24.0) / 8}, index=idx)
    env = TradingEnvXY(X, Y, transformer=None, window=1, spread=0.0, calendar="NYSE", steps_delay=0)
    hol = xylab.holidays("NYSE")
    env.reset()
    hit, done = [], False
    while True:
        now = env.now()
        if now.date() in hol:
            hit.append(str(now))
        if done:
            break
        done = env.step(np.zeros(1))[2]
    if hit:
        return "12-hourly price table, NYSE calendar: steps taken on holiday dates %s" % hit
    return None


FINDING_PROBES = {"C18-intraday-holiday": probe_intraday_holiday}

# Side observation (outside the statement of C18, avoided by construction in xylab.cases): when fewer
# than three price rows are dated at or before `transformer_end` (e.g. features with a longer history
# than prices and a transformer fitted on the early part), the constructor fails with
# "AttributeError: 'float' object has no attribute 'item'" (env.py, reward scale: std of < 2 returns is NaN,
# Series.mean() of all-NaN is a Python float).  Minimal: Y daily from 2019-01-01, X daily from 2018-12-22,
# TradingEnvXY(X, Y, transformer='z-score', transformer_end='2019-01-02').

# ------------------------------------------------------------------------------------------------
# Sensitivity record (scratch copy of /repo/tradingenv, one mutant at a time,
# VERIF_PKG_ROOT=<scratch> ./check C18 --tier quick --no-evidence; all exit 1 + VIOLATION, seed 1,
# the starred ones also with seeds 2-4):
#   state.py   queue fed newest-first (appendleft)                         caught: observation rows
#   state.py   stride from the oldest row (x[::stride])                    caught: observation rows
#   state.py   stride anchored one row early (own)                         caught: observation rows
#   env.py     timesteps[window - 1:] in _make_timesteps                 * caught: only by the price-table reading of
#              "full window available" (< window non-holiday env.Y rows precede the step); the published feature
#              table always has >= 2*window-1 rows at the first step, so len(env.X.loc[:now]) >= window cannot see it
#   env.py     holidays not dropped                                        caught: step on a holiday (calendar-daily tables)
#   env.py     warm-up horizon exactly 3 + 2*window days (max() removed) * caught: observation padded with the oldest
#              replayed row at an episode start right after a closure (exchange-shaped tables: SSE New Year 1996, ...)
#   transmitter.py  warm-up origin exclusive (origin < t) (own)          * caught: same cases
#   env.py     X.bfill instead of ffill                                    caught: published table is not a forward fill
#   env.py     no fill at all (own)                                        caught: published table is not a forward fill
#   env.py     clip before the transform                                 * caught: published feature exceeds clip / bounds
#   env.py     end bound ignored (own)                                     caught: env.Y / steps after the end bound
#   env.py     rate quotes widened by the spread (own)                     caught: rate book bid/ask != given rate
#   transmitter.py  full spread on each side                               caught: quotes
#   transmitter.py  absolute instead of relative spread (own)              caught: quotes
#   transmitter.py  bisect_right when assigning events to steps (own)      caught: clock / step on a holiday
