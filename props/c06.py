"""C06 Interest on cash: compounding, sign, markup, floor, query/accrue distinction, no double accrual.

Part `broker` drives Broker.accrued_interest directly. One case = one cash balance (deposit of either
sign, or what is left after a leveraged spot purchase / after posting futures margin), one constant
reference rate, one markup and one interval [t0, t0+T] cut at generated integer-second points.
Three identically built brokers are run:
    A  one accrual over the whole interval,
    B  one accrual per cut point,
    Q  B's schedule plus query-only calls, repeated calls at the same instant and one call in the past.
Oracles: 50-digit decimal reference (per sub-interval and closed form), A~B (split invariance),
Q==B bitwise (queries / repeats / the rejected past call leave no trace), every query's value equals
bitwise what a fresh twin accruing at that instant adds.

Part `rebalance` drives the same through Broker.rebalance with rebalancing requests that trade nothing
and through a cash-only TradingEnv episode (zero-weight actions, constant rate path).

The reference model (class Ref) is written from the statement only: decimal arithmetic, elapsed
seconds taken from the integers of the case (never from tradingenv), year = 31 536 000 s.
"""
import math
from datetime import datetime, timedelta
from decimal import Decimal, localcontext

import numpy as np
from hypothesis import strategies as st

from vlib.runner import Part, Result
from tradingenv.broker.broker import Broker
from tradingenv.broker.fees import BrokerFees
from tradingenv.broker.rebalancing import Rebalancing
from tradingenv.contracts import AbstractContract, Cash, ETF, ES, Rate
from tradingenv.env import TradingEnv
from tradingenv.events import EventNBBO
from tradingenv.exchange import Exchange
from tradingenv.rewards import RewardSimpleReturn
from tradingenv.spaces import BoxPortfolio
from tradingenv.state import IState
from tradingenv.transmitter import Transmitter

ID = "C06"
YEAR = 31_536_000                     # seconds of a 365-day year (statement)
EPOCH = datetime(1990, 1, 1)
REL = Decimal("1e-9")                 # DESIGN 2.5: interest closed form, rel 1e-9 * (#accruals + 1)

RULE = ("broker: Hypothesis draws cash (deposit of either sign incl. 0, or deposit minus leveraged spot purchase / "
        "short sale proceeds, or deposit minus posted futures margin on a user margined contract or ES), reference rate "
        "in [-0.05, 0.2499] (micro-unit grid), markup in [0, 1+r-0.001], interval T from 1 s to 50 years, 0-20 distinct "
        "integer-second cut points, up to 5 query-only calls (also exactly on accrual instants, before or after the "
        "accrual), up to 3 repeated calls at an accrual instant, optionally one call 1 us .. 10 years before the last "
        "accrual. rebalance: the same balances through 1-20 Broker.rebalance calls that trade nothing (empty target, "
        "relative empty target, unchanged nr-contracts target) at strictly increasing times, or a cash-only TradingEnv "
        "episode of 2-8 timesteps with zero-weight actions and a constant rate quoted from the first timestep (or from "
        "history, or never = seeded 0). Non-trivial = at least 2 sub-intervals, r != 0 and (cash < 0 or markup > 0).")
ASSUMPTIONS = [
    "reference = 50-digit decimal ln/exp of (1 + r -/+ markup)^(seconds/31536000); balances compared rel 1e-9*(#accruals+1), "
    "single increments abs 1e-9*|balance|",
    "the very first call (accrue True or False) starts the accrual clock and returns 0; it is not treated as a query",
    "twin comparisons (query twin, repeats, rejected past call) are bitwise on float.hex of every holding and margin and on Broker._last_accrual",
    "rate constant over the whole case; prices constant (no marking-to-market flows); zero commissions",
    "opening trade arithmetic (cash left after the purchase / margin posting) is C01/C05 matter: a case whose opening cash "
    "differs from deposit - cost by more than 1e-9*scale is excluded and counted, not judged",
    "rebalance part: the schedule stops before the first point where the model's net liquidation value would be <= 0 (ruin is C09)",
    "generator bounds: |cash| in [0.01, 1e9] or 0; total interval <= 50 years; <= 21 sub-intervals",
]


# --------------------------------------------------------------------------------------- reference

class Ref:
    """Balance that follows the statement, sub-interval by sub-interval.

    Which closed form applies when (g = per-year growth factor, y = seconds / 31 536 000):
      cash > 0 and r - markup >= 0 : cash * (1 + r - markup) ** y
      cash > 0 and r - markup <  0 : cash            (floor: positive balances are never charged)
      cash < 0                     : cash * (1 + r + markup) ** y   (no floor for debt, even if r + markup < 0)
      cash = 0                     : 0
    Every factor is positive (1 + r - markup > 0), so an accrual never changes the sign of the
    balance: the same branch applies in every sub-interval, the per-interval factors multiply to
    g ** (T / year) and the floor, when active, is active in every sub-interval. `closed_form`
    evaluates the whole-interval expression, `accrue` the step-by-step one; run_* cross-check them.
    """

    def __init__(self, cash, r, markup):
        self.r = Decimal(r)
        self.m = Decimal(markup)
        self.bal = +Decimal(cash)
        self._ln = {}

    def _lng(self, sign):
        if sign not in self._ln:
            rate = self.r - self.m if sign > 0 else self.r + self.m
            if sign > 0 and rate < 0:
                self._ln[sign] = Decimal(0)          # floor
            else:
                self._ln[sign] = (Decimal(1) + rate).ln()
        return self._ln[sign]

    def increment(self, seconds):
        """What an accrual `seconds` after the previous one adds to the current balance."""
        if self.bal == 0 or seconds == 0:
            return Decimal(0)
        lng = self._lng(1 if self.bal > 0 else -1)
        if lng == 0:
            return Decimal(0)
        return self.bal * ((lng * Decimal(seconds) / Decimal(YEAR)).exp() - Decimal(1))

    def accrue(self, seconds):
        inc = self.increment(seconds)
        self.bal += inc
        return inc

    def closed_form(self, cash, seconds):
        cash = +Decimal(cash)
        if cash == 0:
            return cash
        lng = self._lng(1 if cash > 0 else -1)
        return cash * (lng * Decimal(seconds) / Decimal(YEAR)).exp()


def near(x, ref, n):
    """balance comparison: rel 1e-9 * (#accruals + 1)"""
    x = float(x)
    return math.isfinite(x) and abs(Decimal(x) - ref) <= REL * (n + 1) * abs(ref)


def near_inc(x, ref, bal):
    """one increment: rel 1e-9 of the increment plus the float resolution of (1+cagr)**years - 1 on the balance
    (1e-14 * |balance| * growth factor, some 20 ulps): tight enough to see an error in the elapsed time of a short
    interval, which the money-identity scale 1e-9 * |balance| would hide."""
    x = float(x)
    bal = abs(bal)
    growth = Decimal(1) + (abs(ref) / bal if bal else Decimal(0))
    return math.isfinite(x) and abs(Decimal(x) - ref) <= REL * abs(ref) + Decimal("1e-14") * bal * growth


# ------------------------------------------------------------------------------- building brokers

class Margined(AbstractContract):
    """User contract that posts margin and pays nothing upfront (a future without calendar)."""
    cash_requirement = 0.0

    def __init__(self, symbol, multiplier, margin_requirement):
        self._symbol = symbol
        self._multiplier = multiplier
        self._margin_requirement = margin_requirement

    @property
    def symbol(self):
        return self._symbol

    @property
    def multiplier(self):
        return self._multiplier

    @property
    def margin_requirement(self):
        return self._margin_requirement


def when(t0, offset_s):
    return EPOCH + timedelta(seconds=t0[0] + offset_s, microseconds=t0[1])


def build(setup, r, markup, t_quote):
    """Fresh exchange, fees, broker (and the traded contract of the opening position, if any)."""
    exchange = Exchange()
    rate = Rate("r")
    exchange.process_EventNBBO(EventNBBO(t_quote, Cash(), 1.0, 1.0))
    exchange.process_EventNBBO(EventNBBO(t_quote, rate, r, r))
    fees = BrokerFees(markup=markup, interest_rate=rate, proportional=0.0, fixed=0.0)
    mode = setup["mode"]
    contract = None
    if mode == "deposit":
        deposit = setup["cash"]
    else:
        deposit = setup["deposit"]
        if mode == "spot":
            contract = ETF("SPY")
        elif setup["contract"] == "ES":
            contract = ES(2060, 3)
        else:
            contract = Margined("FUT", setup["mult"], setup["mr"])
        exchange.process_EventNBBO(EventNBBO(t_quote, contract, setup["bid"], setup["ask"]))
    broker = Broker(exchange, base_currency=Cash(), deposit=deposit, fees=fees)
    return broker, contract


def model_opening(setup):
    """(cash after the opening trade, value of everything else at liquidation, scale) from the
    statement of the contracts: spot pays quantity*price upfront, a margined contract posts
    price*|q|*multiplier*margin_requirement."""
    mode = setup["mode"]
    if mode == "deposit":
        c = +Decimal(setup["cash"])             # unary plus: round the exact binary value to 50 digits
        return c, Decimal(0), abs(c)
    dep, q = Decimal(setup["deposit"]), Decimal(setup["qty"])
    bid, ask = Decimal(setup["bid"]), Decimal(setup["ask"])
    if mode == "spot":
        cash = dep - q * (ask if q > 0 else bid)
        other = q * (bid if q > 0 else ask)
        return cash, other, dep + abs(q) * ask
    if setup["contract"] == "ES":
        mult, mr = Decimal(50), Decimal(0.1)
    else:
        mult, mr = Decimal(setup["mult"]), Decimal(setup["mr"])
    margin = ask * abs(q) * mult * mr          # bid == ask for margined set-ups
    return dep - margin, margin, dep + margin


def opening_rebalancing(contract, setup, t):
    return Rebalancing(contracts=[contract], allocation=[setup["qty"]], measure="nr-contracts", time=t)


def start_clock(broker, contract, setup, t, first_accrue):
    """The first call. Deposit mode: accrued_interest itself; otherwise the opening rebalance, which
    accrues (on the untouched deposit, zero elapsed time) before trading."""
    if contract is None:
        return broker.accrued_interest(t, first_accrue)
    reb = opening_rebalancing(contract, setup, t)
    broker.rebalance(reb)
    return reb.profit_on_idle_cash


def cash_of(broker):
    return float(broker.holdings_quantity[broker.base_currency])


def snap(broker):
    """Bitwise picture of everything an accrual may touch."""
    q = tuple(sorted((c.symbol, float(v).hex()) for c, v in broker.holdings_quantity.items()))
    m = tuple(sorted((c.symbol, float(v).hex()) for c, v in broker.holdings_margins.items()))
    return q, m, broker._last_accrual


def others(broker):
    """Holdings other than cash, and margins (must never move when interest accrues)."""
    q, m, _ = snap(broker)
    base = broker.base_currency.symbol
    return tuple(x for x in q if x[0] != base), m


def tag_common(res, cash0, r, markup, setup):
    res.tag("cash>0" if cash0 > 0 else "cash<0" if cash0 < 0 else "cash=0")
    if markup > 0:
        res.tag("markup>0")
    if r < 0:
        res.tag("rate<0")
    if r == 0:
        res.tag("rate=0")
    if cash0 > 0 and Decimal(r) - Decimal(markup) < 0:
        res.tag("floor-active")
    if cash0 < 0 and Decimal(r) + Decimal(markup) < 0:
        res.tag("debt-shrinks")
    if setup["mode"] == "margin":
        res.tag("margin-posted", "margin-" + setup["contract"])
    if setup["mode"] == "spot":
        res.tag("spot-leverage" if setup["qty"] > 0 else "spot-short")


# ------------------------------------------------------------------------------------ part broker

def run_broker(case):
    with localcontext() as ctx:
        ctx.prec = 50
        return _run_broker(case)


def _run_broker(case):
    res = Result()
    setup, r, markup, t0, T = case["setup"], case["r"], case["markup"], case["t0"], case["T"]
    pts = list(case["cuts"]) + [T]                      # accrual instants (seconds after t0)
    n = len(pts)
    first_accrue = case["first_accrue"]
    t_start = when(t0, 0)

    cash0, _, scale = model_opening(setup)
    tag_common(res, cash0, r, markup, setup)
    res.nontrivial = n >= 2 and r != 0 and (cash0 < 0 or markup > 0)
    if T >= 10 * YEAR:
        res.tag("decades")
    if T < 86400:
        res.tag("sub-day")
    res.tag("1-interval" if n == 1 else "2-5-intervals" if n <= 5 else "6+-intervals")
    if not first_accrue and setup["mode"] == "deposit":
        res.tag("first-call-is-query")

    def fresh():
        b, c = build(setup, r, markup, t_start)
        try:
            v = start_clock(b, c, setup, t_start, first_accrue)
        except ValueError as exc:
            return None, "the first call at t0 raised %s: %s" % (type(exc).__name__, exc)
        if v != 0:
            return None, "the first call (clock start) returned %r, not 0" % (v,)
        return b, None

    def call(b, offset, accrue, what):
        try:
            return b.accrued_interest(when(t0, offset), accrue), None
        except ValueError as exc:
            return None, "%s at t0+%ds (accrue=%s) raised ValueError: %s" % (what, offset, accrue, exc)

    # ---- A: one accrual over the whole interval --------------------------------------------------
    A, err = fresh()
    if err:
        res.fail(err)
        return res
    opened = cash_of(A)
    if abs(Decimal(opened) - cash0) > REL * scale:
        res.excluded = "opening cash differs from deposit - cost (C01/C05 matter)"
        return res
    still = others(A)
    ref = Ref(cash0, r, markup)
    final_ref = ref.closed_form(cash0, T)
    ret, err = call(A, T, True, "single accrual")
    if err:
        res.fail(err)
        return res
    if opened > 0 and ret < 0:
        res.fail("positive cash %r charged %r over %d s (r=%r markup=%r)" % (opened, ret, T, r, markup))
    if not near_inc(ret, final_ref - cash0, final_ref):
        res.fail("single accrual over %d s on cash %.17g returned %r, closed form %.17g (r=%r markup=%r)" % (
            T, cash0, ret, final_ref - cash0, r, markup))
    if not near(cash_of(A), final_ref, 1):
        res.fail("cash after one accrual over %d s is %r, closed form %.17g (start %.17g r=%r markup=%r)" % (
            T, cash_of(A), final_ref, cash0, r, markup))
    if others(A) != still:
        res.fail("an accrual changed holdings other than cash or the posted margin: %s -> %s" % (still, others(A)))
    if A._last_accrual != when(t0, T):
        res.fail("after accruing at t0+%ds the last accrual time is %s" % (T, A._last_accrual))

    # ---- B: one accrual per cut point ------------------------------------------------------------
    B, err = fresh()
    if err:
        res.fail(err)
        return res
    b_rets, b_cash, model_bal = [], [], [cash0]
    prev = 0
    for i, p in enumerate(pts):
        before = cash_of(B)
        inc_ref = ref.accrue(p - prev)
        ret, err = call(B, p, True, "accrual %d/%d" % (i + 1, n))
        if err:
            res.fail(err)
            return res
        b_rets.append(ret)
        b_cash.append(cash_of(B))
        model_bal.append(ref.bal)
        if before > 0 and ret < 0:
            res.fail("positive cash %r charged %r over %d s (r=%r markup=%r)" % (before, ret, p - prev, r, markup))
        if not near_inc(ret, inc_ref, ref.bal):
            res.fail("accrual %d over %d s on balance %.17g returned %r, reference %.17g (r=%r markup=%r)" % (
                i + 1, p - prev, model_bal[-2], ret, inc_ref, r, markup))
        if not near(b_cash[-1], ref.bal, i + 1):
            res.fail("cash after %d accruals (t0+%ds) is %r, reference %.17g" % (i + 1, p, b_cash[-1], ref.bal))
        if b_cash[-1] != before + ret:
            res.fail("accrual returned %r but cash moved %r -> %r" % (ret, before, b_cash[-1]))
        prev = p
    # model self-check: the step-by-step reference and the closed form are the same number
    if abs(ref.bal - final_ref) > Decimal("1e-40") * max(abs(final_ref), Decimal(1)):
        raise AssertionError("reference model inconsistent: stepwise %s closed form %s" % (ref.bal, final_ref))
    if not near(b_cash[-1], final_ref, n):
        res.fail("cash after %d accruals over %d s is %r, closed form %.17g (start %.17g r=%r markup=%r)" % (
            n, T, b_cash[-1], final_ref, cash0, r, markup))
    # (ii) split invariance, A against B directly
    if abs(Decimal(cash_of(A)) - Decimal(b_cash[-1])) > REL * (n + 2) * abs(final_ref):
        res.fail("split dependence: one accrual over %d s gives %r, %d accruals give %r" % (T, cash_of(A), n, b_cash[-1]))
    if others(B) != still:
        res.fail("accruals changed holdings other than cash or the posted margin: %s -> %s" % (still, others(B)))

    # ---- Q: B's schedule + queries + same-instant repeats + one call in the past ----------------------
    ops = []      # (offset, rank, kind, payload)
    for i, p in enumerate(pts):
        ops.append((p, 1, "acc", i))
    for q in case["queries"]:
        ops.append((q["off"], 0 if q["before"] else 4, "query", None))
    for rp in case["repeats"]:
        off = 0 if rp["idx"] < 0 else pts[rp["idx"]]
        for _ in range(rp["n"]):
            ops.append((off, 2, "repeat", rp["accrue"]))
    past = case["past"]
    if past is not None:
        off = 0 if past["idx"] < 0 else pts[past["idx"]]
        ops.append((off, 3, "past", past))
    ops.sort(key=lambda o: (o[0], o[1]))
    if case["queries"]:
        res.tag("query-interleaved")
    if case["repeats"]:
        res.tag("same-instant-repeat")
    if past is not None:
        res.tag("past-attempt")

    Q, err = fresh()
    if err:
        res.fail(err)
        return res
    done = 0          # accruals performed so far in Q
    for off, _, kind, payload in ops:
        last = 0 if done == 0 else pts[done - 1]
        if kind == "acc":
            ret, err = call(Q, off, True, "accrual %d/%d (with queries interleaved)" % (payload + 1, n))
            if err:
                res.fail(err)
                return res
            done += 1
            if float(ret).hex() != float(b_rets[payload]).hex() or float(cash_of(Q)).hex() != float(b_cash[payload]).hex():
                res.fail("earlier query-only / repeated / rejected calls changed accrual %d: returned %r cash %r, "
                         "undisturbed twin returned %r cash %r" % (payload + 1, ret, cash_of(Q), b_rets[payload], b_cash[payload]))
                return res
        elif kind == "query":
            s0 = snap(Q)
            ret, err = call(Q, off, False, "query")
            if err:
                res.fail(err)
                return res
            if snap(Q) != s0:
                res.fail("query at t0+%ds changed the account: %s -> %s" % (off, s0, snap(Q)))
                return res
            bal = model_bal[done]
            ref_q = Ref(bal, r, markup).increment(off - last)
            if not near_inc(ret, ref_q, bal + ref_q):
                res.fail("query at t0+%ds (%d s after the last accrual, balance %.17g) returned %r, reference %.17g" % (
                    off, off - last, bal, ret, ref_q))
            if cash_of(Q) > 0 and ret < 0:
                res.fail("query reports a charge %r on positive cash %r" % (ret, cash_of(Q)))
            if off == last and ret != 0:
                res.fail("query at the instant of the last accrual returned %r, not 0" % (ret,))
            # twin: fresh broker, same accruals so far, then an accrual at the query's instant
            P, err = fresh()
            if err:
                res.fail(err)
                return res
            for p in pts[:done]:
                _, err = call(P, p, True, "twin accrual")
                if err:
                    res.fail(err)
                    return res
            p_before = cash_of(P)
            p_ret, err = call(P, off, True, "accrual at a query instant")
            if err:
                res.fail(err)
                return res
            if float(p_ret).hex() != float(ret).hex() or cash_of(P) != p_before + ret:
                res.fail("query at t0+%ds returned %r but an accrual at the same instant returns %r and moves cash %r -> %r" % (
                    off, ret, p_ret, p_before, cash_of(P)))
        elif kind == "repeat":
            s0 = snap(Q)
            ret, err = call(Q, off, payload, "second call at the instant of the last accrual")
            if err:
                res.fail(err)
                return res
            if ret != 0:
                res.fail("second call (accrue=%s) at the instant of the last accrual t0+%ds returned %r, not 0" % (payload, off, ret))
            if snap(Q) != s0:
                res.fail("second call (accrue=%s) at the same instant t0+%ds changed the account: %s -> %s" % (payload, off, s0, snap(Q)))
                return res
        else:  # past
            s0 = snap(Q)
            t_past = when(t0, off) - timedelta(microseconds=payload["back_us"])
            try:
                ret = Q.accrued_interest(t_past, payload["accrue"])
            except ValueError:
                pass
            else:
                res.fail("time %s, %d us before the last accrual %s, was accepted (accrue=%s, returned %r)" % (
                    t_past, payload["back_us"], when(t0, off), payload["accrue"], ret))
            if snap(Q) != s0:
                res.fail("rejected/earlier call at %s changed the account: %s -> %s" % (t_past, s0, snap(Q)))
                return res
    if snap(Q) != snap(B):
        res.fail("twin with query-only / repeated / rejected calls ends at %s, undisturbed twin at %s" % (snap(Q), snap(B)))
    return res


# --------------------------------------------------------------------------------- part rebalance

def run_rebalance(case):
    with localcontext() as ctx:
        ctx.prec = 50
        if case["kind"] == "env":
            return _run_env(case)
        return _run_rebalance(case)


def _run_rebalance(case):
    res = Result()
    res.tag("broker.rebalance")
    setup, r, markup, t0, gaps = case["setup"], case["r"], case["markup"], case["t0"], case["gaps"]
    flavours = case["flavours"]
    cash0, other, scale = model_opening(setup)
    tag_common(res, cash0, r, markup, setup)
    t_start = when(t0, 0)
    broker, contract = build(setup, r, markup, t_start)
    if contract is None:
        first = Rebalancing(contracts=[], allocation=[], time=t_start)
    else:
        first = opening_rebalancing(contract, setup, t_start)
    broker.rebalance(first)
    if first.profit_on_idle_cash != 0:
        res.fail("first rebalance (clock start) reports profit on idle cash %r" % (first.profit_on_idle_cash,))
    if abs(Decimal(cash_of(broker)) - cash0) > REL * scale:
        res.excluded = "opening cash differs from deposit - cost (C01/C05 matter)"
        return res
    still = others(broker)
    ref = Ref(cash0, r, markup)
    offset, done = 0, 0
    for gap, flavour in zip(gaps, flavours):
        inc_ref = ref.increment(gap)
        if ref.bal + inc_ref + other <= Decimal("1e-6") * scale:
            res.tag("stopped-before-ruin")
            break
        offset += gap
        t = when(t0, offset)
        if contract is None or flavour == "relative-empty":
            reb = Rebalancing(contracts=[], allocation=[], absolute=(contract is None and flavour != "relative-empty"), time=t)
        else:   # unchanged target
            reb = Rebalancing(contracts=[contract], allocation=[setup["qty"]], measure="nr-contracts", time=t)
        before = cash_of(broker)
        broker.rebalance(reb)
        if len(reb.trades) != 0:
            res.excluded = "rebalance to the unchanged allocation traded"
            return res
        ref.accrue(gap)
        done += 1
        profit = reb.profit_on_idle_cash
        if before > 0 and profit < 0:
            res.fail("rebalance %d charged %r on positive cash %r" % (done, profit, before))
        if not near_inc(profit, inc_ref, ref.bal):
            res.fail("rebalance %d, %d s after the previous one, balance %.17g: profit_on_idle_cash=%r, reference %.17g (r=%r markup=%r)" % (
                done, gap, ref.bal - inc_ref, profit, inc_ref, r, markup))
        if not near(cash_of(broker), ref.bal, done):
            res.fail("cash after rebalance %d (t0+%ds) is %r, reference %.17g" % (done, offset, cash_of(broker), ref.bal))
        if cash_of(broker) != before + profit:
            res.fail("rebalance %d reports profit %r but cash moved %r -> %r" % (done, profit, before, cash_of(broker)))
        if abs(Decimal(float(reb.context_pre.nlv)) - Decimal(float(reb.context_post.nlv))) > REL * abs(Decimal(float(reb.context_post.nlv))) * 0 + Decimal("1e-12") * abs(Decimal(float(reb.context_post.nlv))):
            res.fail("rebalance %d trades nothing but its pre-trade snapshot shows NLV %r and its post-trade snapshot %r (interest of the period: %r)" % (
                done, reb.context_pre.nlv, reb.context_post.nlv, profit))
        if broker.track_record[-1] is not reb or len(broker.track_record) != done + 1:
            res.fail("track record does not end with rebalance %d" % done)
        if others(broker) != still:
            res.fail("rebalance %d that trades nothing changed positions or margins: %s -> %s" % (done, still, others(broker)))
            return res
    if done:
        final_ref = ref.closed_form(cash0, offset)
        if abs(ref.bal - final_ref) > Decimal("1e-40") * max(abs(final_ref), Decimal(1)):
            raise AssertionError("reference model inconsistent: stepwise %s closed form %s" % (ref.bal, final_ref))
        if not near(cash_of(broker), final_ref, done):
            res.fail("cash after %d rebalances over %d s is %r, closed form %.17g (start %.17g r=%r markup=%r)" % (
                done, offset, cash_of(broker), final_ref, cash0, r, markup))
        # same instant: nothing more to accrue right after a rebalance
        s0 = snap(broker)
        extra = broker.accrued_interest(when(t0, offset), False)
        if extra != 0 or snap(broker) != s0:
            res.fail("query at the instant of the last rebalance returned %r / changed the account" % (extra,))
        # a rebalance dated EARLIER than the last accrual must be rejected and change nothing
        back = 1 + (case.get("back", 0) % max(1, offset))
        n0 = len(broker.track_record)
        stale = Rebalancing(contracts=[], allocation=[], time=when(t0, offset - back))
        try:
            broker.rebalance(stale)
            res.fail("a rebalance dated %d s before the last accrual was accepted (track record %d -> %d entries)" % (
                back, n0, len(broker.track_record)))
        except ValueError:
            if snap(broker) != s0 or len(broker.track_record) != n0:
                res.fail("a rejected back-dated rebalance changed the account or the track record")
            res.tag("back-dated-rebalance-rejected")
    if offset >= 10 * YEAR:
        res.tag("decades")
    res.tag("1-interval" if done <= 1 else "2-5-intervals" if done <= 5 else "6+-intervals")
    res.nontrivial = done >= 2 and r != 0 and (cash0 < 0 or markup > 0)
    return res


def _run_env(case):
    res = Result()
    res.tag("env-episode", "rate-quote-" + case["rate_mode"])
    cash0, r, markup, t0, gaps, prices = case["cash"], case["r"], case["markup"], case["t0"], case["gaps"], case["prices"]
    offsets = [0]
    for g in gaps:
        offsets.append(offsets[-1] + g)
    times = [when(t0, o) for o in offsets]
    etf, rate = ETF("A"), Rate("r")
    events = [EventNBBO(t, etf, p, p) for t, p in zip(times, prices)]
    mode = case["rate_mode"]
    if mode == "first":
        events.append(EventNBBO(times[0], rate, r, r))
    elif mode == "every":
        events.extend(EventNBBO(t, rate, r, r) for t in times)
    elif mode == "history":
        events.append(EventNBBO(times[0] - timedelta(seconds=case["history_s"]), rate, r, r))
    r_eff = 0.0 if mode == "never" else r           # reset seeds the rate book with 0
    transmitter = Transmitter(list(times))
    transmitter.add_events(events)
    env = TradingEnv(
        action_space=BoxPortfolio([etf], 0.0, 1.0),
        state=IState(),
        reward=RewardSimpleReturn(),
        transmitter=transmitter,
        initial_cash=cash0,
        broker_fees=BrokerFees(markup=markup, interest_rate=rate, proportional=0.0, fixed=0.0),
        latency=0,
        steps_delay=0,
    )
    env.reset()
    tag_common(res, cash0, r_eff, markup, {"mode": "deposit"})
    ref = Ref(cash0, r_eff, markup)
    nsteps = len(gaps)                  # step j rebalances at times[j-1]; the last interval is never accrued
    j = 0
    for j in range(1, nsteps + 1):
        before = cash_of(env.broker)
        _, _, done_flag, _ = env.step(np.array([0.0]))
        tr = env.broker.track_record
        if len(tr) != j:
            res.fail("after step %d the track record holds %d rebalances" % (j, len(tr)))
            return res
        reb = tr[-1]
        if reb.time != times[j - 1]:
            res.fail("step %d rebalanced at %s, timestep is %s" % (j, reb.time, times[j - 1]))
            return res
        elapsed = 0 if j == 1 else gaps[j - 2]
        inc_ref = ref.accrue(elapsed)
        profit = reb.profit_on_idle_cash
        if profit < 0:
            res.fail("step %d charged %r on positive cash %r" % (j, profit, before))
        if not near_inc(profit, inc_ref, ref.bal):
            res.fail("step %d, %d s after the previous rebalance, balance %.17g: profit_on_idle_cash=%r, reference %.17g (r=%r markup=%r)" % (
                j, elapsed, ref.bal - inc_ref, profit, inc_ref, r_eff, markup))
        if not near(cash_of(env.broker), ref.bal, j):
            res.fail("cash after step %d is %r, reference %.17g" % (j, cash_of(env.broker), ref.bal))
        if cash_of(env.broker) != before + profit:
            res.fail("step %d reports profit %r but cash moved %r -> %r" % (j, profit, before, cash_of(env.broker)))
        if done_flag and j < nsteps:
            res.tag("episode-ended-early")
            break
    total = offsets[max(j - 1, 0)]
    final_ref = ref.closed_form(cash0, total)
    if abs(ref.bal - final_ref) > Decimal("1e-40") * max(abs(final_ref), Decimal(1)):
        raise AssertionError("reference model inconsistent: stepwise %s closed form %s" % (ref.bal, final_ref))
    if not near(cash_of(env.broker), final_ref, j):
        res.fail("cash after %d steps over %d s is %r, closed form %.17g (start %r r=%r markup=%r)" % (
            j, total, cash_of(env.broker), final_ref, cash0, r_eff, markup))
    if total >= 10 * YEAR:
        res.tag("decades")
    sub = max(j - 1, 0)
    res.tag("1-interval" if sub <= 1 else "2-5-intervals" if sub <= 5 else "6+-intervals")
    res.nontrivial = sub >= 2 and r_eff != 0 and markup > 0
    return res


# ------------------------------------------------------------------------------------- strategies

RATES_MICRO = [0, 10000, 30000, 50000, 125000, 200000, 249900, -10000, -50000, 1]
MARKUPS_MICRO = [0, 0, 5000, 10000, 50000, 100000]
SPANS = [1, 2, 59, 3600, 86399, 86400, 7 * 86400, 30 * 86400, 360 * 86400, YEAR - 1, YEAR, 366 * 86400,
         2 * YEAR, 10 * YEAR, 30 * YEAR + 12345, 50 * YEAR]
CASH = [0.01, 1.0, 3.5, 100.0, 250.0, 12345.678, 1e6, 1e9]


@st.composite
def rate_markup(draw):
    ri = draw(st.one_of(st.sampled_from(RATES_MICRO), st.integers(1, 249900), st.integers(1000, 249900),
                        st.integers(10000, 249900), st.integers(-50000, -1)))
    top = 1_000_000 + ri - 1000                       # keeps 1 + r - markup >= 0.001
    mi = draw(st.one_of(st.sampled_from(MARKUPS_MICRO), st.integers(0, 20000), st.integers(0, max(ri, 1)),
                        st.integers(1, max(ri, 1)), st.integers(0, 300000), st.integers(300000, top)))
    return ri / 1e6, min(mi, top) / 1e6


def spans(lo=1):
    return st.one_of(st.sampled_from([s for s in SPANS if s >= lo]), st.integers(lo, 86400),
                     st.integers(86400, 2 * YEAR), st.integers(2 * YEAR, 50 * YEAR))


def start_times():
    return st.tuples(st.integers(0, 40 * YEAR), st.sampled_from([0, 0, 0, 1, 500000, 999999])).map(list)


@st.composite
def setups(draw, positive_only=False):
    # through Broker.rebalance the account must stay solvent: debt only next to a position
    mode = draw(st.sampled_from(["deposit", "spot", "spot", "margin", "margin"] if positive_only else
                                ["deposit", "deposit", "deposit", "spot", "margin"]))
    if mode == "deposit":
        mag = draw(st.one_of(st.sampled_from(CASH), st.floats(0.01, 1e9, allow_nan=False)))
        if positive_only:
            return {"mode": "deposit", "cash": mag}
        sign = draw(st.sampled_from([1.0, 1.0, 1.0, 1.0, 1.0, -1.0, -1.0, -1.0, -1.0, -1.0, -1.0, 0.0]))
        return {"mode": "deposit", "cash": mag * sign + 0.0}
    deposit = draw(st.sampled_from([64.0, 100.0, 128.0, 1000.0, 4096.0]))
    if mode == "spot":
        ask = draw(st.sampled_from([0.5, 2.0, 8.0, 64.0, 100.0, 250.25]))
        # spread <= 3% of the price so that the opening trade never ruins the account
        bid = ask - draw(st.sampled_from([0.0, 0.0, 0.125, 0.25] if ask >= 8 else [0.0]))
        # quarters of a share, worth between ~0 and 4x the deposit; short sales up to 0.75x
        nmax = int(16 * deposit / ask)
        n = draw(st.one_of(st.integers(1, nmax), st.integers(max(1, nmax // 4), nmax), st.integers(-(3 * nmax) // 16, -1)))
        return {"mode": "spot", "deposit": deposit, "bid": bid, "ask": ask, "qty": n / 4}
    price = draw(st.sampled_from([0.5, 16.0, 100.0, 1024.0, 2750.5]))
    which = draw(st.sampled_from(["user", "user", "ES"]))
    qty = draw(st.sampled_from([-8.0, -1.0, -0.25, 0.25, 0.5, 1.0, 3.0, 16.0]))
    out = {"mode": "margin", "contract": which, "deposit": deposit, "bid": price, "ask": price, "qty": qty}
    if which == "user":
        out["mult"] = draw(st.sampled_from([1.0, 4.0, 50.0]))
        out["mr"] = draw(st.sampled_from([0.0625, 0.125, 0.5, 0.1, 1.0]))
    return out


@st.composite
def broker_cases(draw, tier="quick"):
    r, markup = draw(rate_markup())
    setup = draw(setups())
    T = draw(spans())
    if T > 1:
        cuts = draw(st.one_of(
            st.lists(st.integers(1, T - 1), min_size=1, max_size=4, unique=True),
            st.lists(st.integers(1, T - 1), min_size=0, max_size=20, unique=True),
        ))
    else:
        cuts = []
    cuts = sorted(cuts)
    marks = [0] + cuts + [T]
    queries = draw(st.lists(st.fixed_dictionaries({
        "off": st.one_of(st.integers(0, T), st.sampled_from(marks)),
        "before": st.booleans(),
    }), max_size=5))
    npts = len(cuts) + 1
    repeats = draw(st.lists(st.fixed_dictionaries({
        "idx": st.integers(-1, npts - 1), "n": st.integers(1, 2), "accrue": st.booleans(),
    }), max_size=3))
    past = draw(st.one_of(st.none(), st.fixed_dictionaries({
        "idx": st.integers(-1, npts - 1),
        "back_us": st.one_of(st.just(1), st.integers(1, 10 ** 6), st.integers(10 ** 6, 10 * YEAR * 10 ** 6)),
        "accrue": st.booleans(),
    })))
    return {"setup": setup, "r": r, "markup": markup, "t0": draw(start_times()), "T": T, "cuts": cuts,
            "queries": queries, "repeats": repeats, "past": past,
            "first_accrue": draw(st.sampled_from([True, True, True, False]))}


@st.composite
def gap_lists(draw, lo, hi):
    """strictly increasing times: gaps >= 1 s, sum <= 50 years"""
    total = draw(spans(hi))
    k = draw(st.integers(lo, hi))
    raw = draw(st.lists(st.integers(1, 1000), min_size=k, max_size=k))
    room = total - k
    s = sum(raw)
    gaps = [1 + (room * x) // s for x in raw]
    if draw(st.sampled_from([False, True])):
        # sub-second parts (dyadic fractions of a second, exact in binary and in the microsecond clock)
        gaps = [g + draw(st.sampled_from([0, 0.5, 0.25, 0.75, 0.125])) for g in gaps]
    return gaps


@st.composite
def rebalance_cases(draw, tier="quick"):
    r, markup = draw(rate_markup())
    t0 = draw(start_times())
    if draw(st.sampled_from(["broker", "broker", "env"])) == "broker":
        setup = draw(setups(positive_only=True))
        gaps = draw(gap_lists(1, 20))
        flavours = draw(st.lists(st.sampled_from(["empty", "relative-empty", "same-target"]),
                                 min_size=len(gaps), max_size=len(gaps)))
        return {"kind": "broker", "setup": setup, "r": r, "markup": markup, "t0": t0, "gaps": gaps, "flavours": flavours,
                "back": draw(st.integers(0, 10 ** 7))}
    gaps = draw(gap_lists(2, 8))
    prices = draw(st.lists(st.sampled_from([0.5, 8.0, 99.75, 100.0, 101.5, 4096.0]), min_size=len(gaps) + 1, max_size=len(gaps) + 1))
    cash = draw(st.one_of(st.sampled_from(CASH), st.floats(0.01, 1e9, allow_nan=False)))
    rate_mode = draw(st.sampled_from(["first", "first", "every", "history", "never"]))
    if rate_mode == "never":
        # no quote ever arrives: the reference rate is the 0 seeded by reset; keep 1 + 0 - markup > 0
        r, markup = 0.0, min(markup, 0.999)
    return {"kind": "env", "cash": cash, "r": r, "markup": markup, "t0": t0, "gaps": gaps, "prices": prices,
            "rate_mode": rate_mode, "history_s": draw(st.sampled_from([1, 3600, 86400 * 400]))}


PARTS = [
    Part("broker", strategy=lambda tier: broker_cases(tier), run=run_broker, quick=12000, thorough=200000),
    Part("rebalance", strategy=lambda tier: rebalance_cases(tier), run=run_rebalance, quick=3000, thorough=40000),
]


# ------------------------------------------------------------------------------- sensitivity record
# Mutants injected one at a time into a scratch copy (VERIF_PKG_ROOT=/tmp/c06mut ./check C06 --tier quick
# --no-evidence, seed 1). Every one gave exit 1 with a VIOLATION line; "parts" = parts that reported it.
#
#   from the DESIGN "must catch" list / task list (all in broker.py, Broker.accrued_interest)
#   year360                  SECONDS_IN_YEAR = 360 days                              broker, rebalance
#   year366                  SECONDS_IN_YEAR = 366 days                              broker, rebalance
#   simple                   rate_period = cagr * years                              broker, rebalance
#   markup_always_minus      cagr = mid - markup (sign of cash ignored)              broker, rebalance
#   query_mutates_clock      _last_accrual = now also when accrue=False              broker
#   interest_on_margin       amount = cash + sum(margins)                            broker, rebalance
#   past_check_removed       no ValueError for now < last accrual                    broker
#   past_check_le            `now <= last` rejected (same-instant / first call)      broker, rebalance
#   floor_removed            positive cash charged when r - markup < 0               broker, rebalance
#   own, subtle
#   markup_only_on_loans     markup * min(sign, 0): idle cash earns the full rate    broker, rebalance
#   interest_on_initial_deposit  interest on the initial deposit, not the balance    broker (split twin / stepwise reference)
#   cagr_floored_both_signs  max(cagr, 0): debt does not shrink when r + markup < 0  broker, rebalance
#   rebalance_does_not_accrue  Broker.rebalance calls accrued_interest(.., False)    rebalance
#   days_only                years from timedelta.days (intraday seconds dropped)    broker, rebalance
#   floor_any_sign           floor applied to debt as well (loans never charged)     broker, rebalance
#   clock_not_moved_when_zero  accrue with zero interest leaves _last_accrual        broker
#   past_check_seconds_resolution / past_check_same_day  sub-second / same-day past accepted   broker
#   margin_interest_when_borrowing  margin added to the base only when cash < 0      broker, rebalance
#   year365_25, continuous (exp(cagr*years)), markup_multiplicative ((1+r)(1-m)-1)   broker, rebalance
#   markup_sign_from_equity  markup follows the sign of the equity, not of the cash  broker, rebalance
#   query_moves_clock_when_zero  a query returning 0 moves the clock                 broker
#   env.py: reset seeds the rate book with 0.01 instead of 0 / does not seed it      rebalance (env episode, rate never quoted)
# Missed: none.
