"""C14 Order book semantics: last quote wins, per-contract isolation, dead stays dead;
buy at ask, sell at bid, flat at mid; a futures-chain key addresses the book of its current lead.

Model-based test over histories. A case is

    {"contracts": [descriptor, ...], "view": 0..3, "observe": "every"|"touched"|"end", "ops": [op, ...]}

    descriptor  ["asset", "ETF"|"Stock"|"Index", symbol]
                ["future", cls, year, month]
                ["chain", cls, "YYYY-MM", "YYYY-MM", k]         FutureChain(cls, start, end, month=k)     k in 0,1,2
                ["chainlist", cls, [[year, month], ...], k]      FutureChain(contracts=[...], month=k) (given unsorted)
    op          ["q", ci, kk, bid, ask, bid_size|null, ask_size|null, dt]   EventNBBO -> process_EventNBBO
                ["d", ci, mi, kk, dt]                                       EventContractDiscontinued
                ["c", seconds, microseconds]                                AbstractContract.now = BASE + seconds (+ us)
                ["k", ci, kind, q]                                          query through one key kind

Every argument is relative (`ci` is taken modulo the number of contracts, `mi` modulo the number of
chain members, event time = previous event time + dt) so every sub-list of ops is a valid history.
The ops are interpreted against a real `Exchange()` and against a dict `symbol -> MBook` that is
written from the property statement only. Reading the exchange is itself an operation with a side
effect (`Exchange._books` is a defaultdict), so WHEN the comparison happens is part of the case:
observe="every"   after every op the whole exchange is compared with the whole model (all known
                  symbols, through keys chosen by `view`);
observe="touched" after every op only the books of symbols already addressed by an earlier
                  quote/discontinue/query op are read; the whole comparison happens after the last op;
observe="end"     nothing is read until the last op (query ops are skipped), then the whole comparison.
"""
from datetime import datetime, timedelta

import numpy as np
from hypothesis import strategies as st

from vlib.runner import Part, Result
from tradingenv import contracts as C
from tradingenv.contracts import AbstractContract
from tradingenv.events import EventNBBO, EventContractDiscontinued
from tradingenv.exchange import Exchange

ID = "C14"
BASE = datetime(2019, 1, 1)
NAN = float("nan")
INF = float("inf")
ASSET_CLASSES = ["ETF", "Stock", "Index"]
KINDS = ["obj", "clone", "str", "chain"]
HIST_FIELDS = ("time", "bid_price", "ask_price", "mid_price", "bid_size", "ask_size")

RULE = ("histories: Hypothesis draws 2-5 distinct contracts (ETF/Stock/Index assets, ES/ZN/NK/VX futures instances and two user-defined Future subclasses CL/HO "
        "whose last trading date carries a time of day, 0-2 "
        "FutureChain objects built from start/end or from an explicit unsorted contract list, with month offset 0, 1 "
        "or 2; a plain future may alias a chain member), an observation mode (compare after every op / only books "
        "already addressed / only after the last op: reading Exchange creates books, so reads are part of the history) and a list of up to 40 ops quote/discontinue/set_clock/query (st.lists of tuples, one JSON "
        "value). Clock values are drawn around the last trading dates of the futures in the case (-1 day, -1 h, -1 s, -1 us, exact, "
        "+1 us, +1 s, +1 day; for intraday cut-offs also around 00:00 of that day and of the next) and uniformly, always where the (month-shifted) preferred contract of every chain exists. "
        "Non-trivial = at least 2 distinct symbols received an accepted quote AND at least one discontinuation was "
        "followed by a later quote addressed to the dead book AND at least one query went through a non-identity key "
        "(new object with the same symbol / symbol string / chain; with observe=end, where query ops are skipped, the "
        "final comparison through clone or string keys counts). keyed-env: a price series published on a chain key (ES, NK, ZN, VX, month offset 0-1) "
        "is played through a TradingEnv over grids straddling a last-trading date; each book's history must hold exactly the quotes whose own "
        "timestamp makes that contract the lead (non-trivial = the series crosses a roll).")
ASSUMPTIONS = [
    "oracle = naive dict model symbol -> {alive, bid, ask, sizes, history}; comparisons are exact (NaN-aware ==): the "
    "model performs the same single IEEE operations (ask+bid)/2 and ask-bid, no tolerance is needed",
    "quotes are sound NBBOs: 0 <= bid <= ask <= 1.0001e6, sizes > 0 or omitted (default inf); about one quote in seven "
    "has an empty (NaN) bid, ask or both - it is processed like any other quote; crossed quotes are not generated",
    "the model trusts Future.last_trading_date and the member list of FutureChain(cls, start, end) (both are C19's "
    "subject); the lead is resolved in the model by a linear scan: earliest last trading date strictly after the "
    "clock, then `month` contracts further along the curve (FutureChain(month=k): k=1 prefers the second expiry)",
    "the clock is never set where the preferred contract of a chain in the case does not exist (at/after the last "
    "trading date of the (month+1)-th latest member; the library documents no behaviour there); the clock may move "
    "backwards (environment reset)",
    "EventNBBO.contract is always a contract object (the constructor calls contract.verify); symbol strings are only "
    "used as Exchange keys. Discontinuation events address assets, futures or a named chain member, never a chain key",
    "a discontinuation is effective whether or not the exchange has ever been asked for that contract's book",
    "user-defined Future subclasses (CL, HO, defined in this module: fixed expiry day, last trade 2-3 days earlier at "
    "16:00 / 13:30:00.5) are legitimate inputs: contracts.py invites 'your own implementation'; a chain of them rolls "
    "at that instant, not at 00:00 of that day",
]


# --------------------------------------------------------------------------------------------- model

class MBook:
    __slots__ = ("alive", "bid", "ask", "bsz", "asz", "hist")

    def __init__(self):
        self.alive = True
        self.bid = NAN
        self.ask = NAN
        self.bsz = NAN
        self.asz = NAN
        self.hist = []

    def mid(self):
        return (self.ask + self.bid) / 2

    def spread(self):
        return self.ask - self.bid

    def buy(self, q):
        """Reference pricing: purchase at ask, sale at bid, flat at mid."""
        if q > 0:
            return self.ask
        if q < 0:
            return self.bid
        return self.mid()


class Member:
    __slots__ = ("cls", "year", "month", "symbol", "ltd")

    def __init__(self, cls, year, month, symbol, ltd):
        self.cls, self.year, self.month, self.symbol, self.ltd = cls, year, month, symbol, ltd


class MContract:
    __slots__ = ("kind", "desc", "obj", "symbol", "members", "ltd", "month")

    def lead(self, clock):
        return model_lead(self.members, clock, self.month)


def plain(x):
    """pandas.Timestamp -> datetime."""
    return datetime(x.year, x.month, x.day, x.hour, x.minute, x.second, x.microsecond)


def model_lead(members, clock, month=0):
    """Preferred contract of a chain: among the members whose last trading date is strictly after the clock,
    the one with the earliest date (month=0), the second earliest (month=1), ...; None if there is none."""
    later = [mem for mem in members if mem.ltd > clock]
    for _ in range(month):
        if not later:
            return None
        first = later[0]
        for mem in later:
            if mem.ltd < first.ltd:
                first = mem
        later = [mem for mem in later if mem is not first]
    best = None
    for mem in later:
        if best is None or mem.ltd < best.ltd:
            best = mem
    return best


def chain_month(desc):
    n = 5 if desc[0] == "chain" else 4
    return int(desc[n - 1]) if len(desc) >= n else 0


def same(a, b):
    try:
        if a != a and b != b:
            return True
        return bool(a == b)
    except Exception:
        return False


# ----------------------------------------------------------------------------------- object builders

def make_asset(cls, symbol, other=False):
    if other:
        cls = ASSET_CLASSES[(ASSET_CLASSES.index(cls) + 1) % len(ASSET_CLASSES)]
    return getattr(C, cls)(symbol)


class CL(C.Future):
    """User-defined future (the library documents "provide your own implementation") that stops trading
    INTRADAY: monthly, expires on the 25th at 00:00, last trade three days earlier at 16:00."""
    exists_since = datetime(2000, 1, 1)
    freq = "ME"
    multiplier = 1000.0
    margin_requirement = 0.1

    def _get_expiry_date(self, year, month):
        return datetime(year, month, 25)

    def _get_last_trading_date(self, expiry):
        return expiry - timedelta(days=3) + timedelta(hours=16)


class HO(CL):
    """Quarterly user-defined future, last trade two days before the 25th at 13:30:00.5."""
    freq = "QE-DEC"
    multiplier = 420.0

    def _get_last_trading_date(self, expiry):
        return expiry - timedelta(days=2) + timedelta(hours=13, minutes=30, microseconds=500000)


USER_FUTURES = {"CL": CL, "HO": HO}


def future_class(name):
    return USER_FUTURES.get(name) or getattr(C, name)


def make_future(cls, year, month):
    return future_class(cls)(year, month)


def make_chain(desc, reverse=False):
    k = chain_month(desc)
    kw = {"month": k} if k else {}       # month=0 is also exercised through the default
    if desc[0] == "chain":
        return C.FutureChain(future_class(desc[1]), desc[2], desc[3], **kw)
    items = list(desc[2])
    if reverse:
        items = items[::-1]
    return C.FutureChain(contracts=[make_future(desc[1], y, m) for y, m in items], **kw)


def build_contract(desc):
    mc = MContract()
    mc.kind = "chain" if desc[0] in ("chain", "chainlist") else desc[0]
    mc.desc = desc
    mc.members = None
    mc.symbol = None
    mc.ltd = None
    mc.month = chain_month(desc) if mc.kind == "chain" else 0
    if desc[0] == "asset":
        mc.obj = make_asset(desc[1], desc[2])
        mc.symbol = desc[2]
    elif desc[0] == "future":
        mc.obj = make_future(desc[1], desc[2], desc[3])
        mc.symbol = mc.obj.symbol
        mc.ltd = plain(mc.obj.last_trading_date)
    else:
        mc.obj = make_chain(desc)
        mc.members = []
        if desc[0] == "chain":
            for f in mc.obj.contracts:
                mc.members.append(Member(desc[1], f.expiry.year, f.expiry.month, f.symbol, plain(f.last_trading_date)))
        else:
            for y, m in desc[2]:
                f = make_future(desc[1], y, m)
                mc.members.append(Member(desc[1], y, m, f.symbol, plain(f.last_trading_date)))
    return mc


# ------------------------------------------------------------------------------------- interpretation

class Ctx:
    pass


def expected_hist_columns(hist):
    cols = [[], [], [], [], [], []]
    for row in hist:
        for j in range(6):
            cols[j].append(row[j])
    return cols


def check_book(res, book, mb, where):
    """Scalar interface of one LimitOrderBook against one model book."""
    ok = True

    def bad(text):
        res.fail("%s: %s" % (where, text))
        return False

    if not same(book.bid_price, mb.bid):
        ok = bad("bid_price=%r, model %r" % (book.bid_price, mb.bid))
    if not same(book.ask_price, mb.ask):
        ok = bad("ask_price=%r, model %r" % (book.ask_price, mb.ask))
    if not same(book.mid_price, mb.mid()):
        ok = bad("mid_price=%r, model %r" % (book.mid_price, mb.mid()))
    if not same(book.spread, mb.spread()):
        ok = bad("spread=%r, model %r" % (book.spread, mb.spread()))
    if not same(book.bid_size, mb.bsz) or not same(book.ask_size, mb.asz):
        ok = bad("sizes=(%r, %r), model (%r, %r)" % (book.bid_size, book.ask_size, mb.bsz, mb.asz))
    if bool(book.is_alive) != mb.alive:
        ok = bad("is_alive=%r, model %r" % (book.is_alive, mb.alive))
    for q in (1, -1, 0, 2.5, -0.125, 0.0, -0.0, np.float64(3.0), np.float64(-1e-9)):
        want = mb.buy(q)
        got = book.acq_price(q)
        if not same(got, want):
            ok = bad("acq_price(%r)=%r, model %r (bid %r ask %r)" % (q, got, want, mb.bid, mb.ask))
            break
        want = mb.buy(-q)
        got = book.liq_price(q)
        if not same(got, want):
            ok = bad("liq_price(%r)=%r, model %r (bid %r ask %r)" % (q, got, want, mb.bid, mb.ask))
            break
    hist = book.history
    cols = expected_hist_columns(mb.hist)
    for name, col in zip(HIST_FIELDS, cols):
        got = list(hist[name])
        if len(got) != len(col) or not all(same(g, w) for g, w in zip(got, col)):
            ok = bad("history[%r] has %d entries %s, model has %d entries %s" % (
                name, len(got), got[-3:], len(col), col[-3:]))
            break
    return ok


def check_nan_sign(res, book, where):
    for fn in ("acq_price", "liq_price"):
        try:
            got = getattr(book, fn)(NAN)
        except ValueError:
            continue
        res.fail("%s: %s(nan) returned %r instead of raising ValueError" % (where, fn, got))
        return False
    return True


SIGN_CYCLE = [1.0, -1.0, 0.0, -2.5, 0.25, -0.0]


def check_vectors(res, ex, keys, mbooks, signs, where):
    ok = True
    n = len(keys)
    expect = {
        "bid_prices": [mb.bid for mb in mbooks],
        "ask_prices": [mb.ask for mb in mbooks],
        "mid_prices": [mb.mid() for mb in mbooks],
        "spreads": [mb.spread() for mb in mbooks],
        "acq_prices": [mb.buy(s) for mb, s in zip(mbooks, signs)],
        "liq_prices": [mb.buy(-s) for mb, s in zip(mbooks, signs)],
    }
    for name, want in expect.items():
        if name in ("acq_prices", "liq_prices"):
            got = getattr(ex, name)(keys, np.array(signs, dtype=float))
        else:
            got = getattr(ex, name)(keys)
        if not isinstance(got, np.ndarray) or got.shape != (n,):
            res.fail("%s: %s returned %r, expected an array of %d prices" % (where, name, got, n))
            ok = False
            continue
        for i in range(n):
            if not same(got[i], want[i]):
                res.fail("%s: %s[%d] (key %r, sign %r) = %r, model %r" % (
                    where, name, i, keys[i], signs[i], got[i], want[i]))
                ok = False
                break
    return ok


def check_all(ctx, res, step, where, only=None):
    """Whole exchange (or the books of the symbols in `only`) against the model."""
    syms = ctx.syms if only is None else [s for s in ctx.syms if s in only]
    if not syms:
        return True
    keys = []
    for i, s in enumerate(syms):
        mode = ctx.view if ctx.view < 3 else (i + step) % 3
        keys.append(ctx.keysets[mode][s])
    mbooks = [ctx.model[s] for s in syms]
    signs = [SIGN_CYCLE[(i + step) % len(SIGN_CYCLE)] for i in range(len(syms))]
    ok = check_vectors(res, ctx.ex, keys, mbooks, signs, where)
    for i, s in enumerate(syms):
        ok = check_book(res, ctx.ex[keys[i]], mbooks[i], "%s, book %s via key %r" % (where, s, keys[i])) and ok
    j = step % len(syms)
    ok = check_nan_sign(res, ctx.ex[keys[j]], "%s, book %s" % (where, syms[j])) and ok
    return ok


def chain_variant(mc, step):
    """A NEW FutureChain object equivalent to mc.obj."""
    if mc.desc[0] == "chain" and step % 2 == 0:
        return make_chain(mc.desc)
    if mc.desc[0] == "chain":
        # same members given explicitly, latest first (the constructor has to sort them)
        return C.FutureChain(contracts=[make_future(m.cls, m.year, m.month) for m in mc.members[::-1]],
                             month=mc.month)
    return make_chain(mc.desc, reverse=(step % 2 == 1))


def resolve_query(ctx, mc, kind, step):
    """-> (key, symbol the key must address, kind actually used)."""
    clock = ctx.clock
    if mc.kind == "chain":
        lead = mc.lead(clock)
        if kind == "obj":
            return mc.obj, lead.symbol, "obj-chain"
        if kind == "clone":   # a new Future object carrying the lead's symbol
            return make_future(lead.cls, lead.year, lead.month), lead.symbol, "clone"
        if kind == "str":
            return lead.symbol, lead.symbol, "str"
        return chain_variant(mc, step), lead.symbol, "chain"
    if mc.kind == "future":
        d = mc.desc
        if kind == "obj":
            return mc.obj, mc.symbol, "obj"
        if kind == "str":
            return mc.symbol, mc.symbol, "str"
        if kind == "chain":
            for other in ctx.mcs:
                if other.kind == "chain":
                    lead = other.lead(clock)
                    if lead is not None and lead.symbol == mc.symbol:
                        return other.obj, mc.symbol, "chain"
            if mc.ltd > clock:
                # ad-hoc two-member chain whose front contract is this future
                chain = C.FutureChain(contracts=[make_future(d[1], d[2] + 1, d[3]), make_future(d[1], d[2], d[3])])
                return chain, mc.symbol, "chain"
        return make_future(d[1], d[2], d[3]), mc.symbol, "clone"
    d = mc.desc
    if kind == "obj":
        return mc.obj, mc.symbol, "obj"
    if kind == "clone":
        return make_asset(d[1], d[2], other=True), mc.symbol, "clone"
    return mc.symbol, mc.symbol, "str"


def run_history(case):
    res = Result()
    AbstractContract.now = datetime.min
    try:
        _run(case, res)
    finally:
        AbstractContract.now = datetime.min
    return res


def _run(case, res):
    ctx = Ctx()
    ctx.mcs = [build_contract(d) for d in case["contracts"]]
    ctx.view = int(case.get("view", 3)) % 4
    observe = case.get("observe", "every")
    if observe not in ("every", "touched", "end"):
        raise ValueError("unknown observation mode %r" % (observe,))
    n = len(ctx.mcs)
    ctx.ex = Exchange()
    ctx.model = {}
    ctx.syms = []
    ctx.keysets = [{}, {}, {}]   # canonical object / second object with the same symbol / symbol string
    ctx.clock = datetime.min
    has_chain = False
    clock_limit = None           # the clock must stay strictly below this (a lead must exist)

    def register(symbol, obj, clone):
        if symbol in ctx.model:
            res.tag("alias-future-and-chain-member")
            return
        ctx.model[symbol] = MBook()
        ctx.syms.append(symbol)
        ctx.keysets[0][symbol] = obj
        ctx.keysets[1][symbol] = clone
        ctx.keysets[2][symbol] = symbol

    for mc in ctx.mcs:
        d = mc.desc
        if mc.kind == "asset":
            register(mc.symbol, mc.obj, make_asset(d[1], d[2], other=True))
        elif mc.kind == "future":
            register(mc.symbol, mc.obj, make_future(d[1], d[2], d[3]))
        else:
            has_chain = True
            # the preferred contract exists while the clock is before the (month+1)-th latest last trading date
            last = sorted(m.ltd for m in mc.members)[len(mc.members) - 1 - mc.month]
            clock_limit = last if clock_limit is None else min(clock_limit, last)
            if mc.month:
                res.tag("chain-month-%d" % mc.month)
            for m in mc.members:
                register(m.symbol, make_future(m.cls, m.year, m.month), make_future(m.cls, m.year, m.month))
    res.tag("contracts-%d" % n, "view-%d" % ctx.view, "observe-" + observe)
    if has_chain:
        res.tag("has-chain")

    t_ev = BASE
    quoted = set()            # symbols with >= 1 accepted quote
    dead_then_quoted = False
    nonidentity_query = False
    chain_leads = {}          # contract index -> lead symbol at the previous chain-key quote
    touched = set()           # symbols addressed so far by a quote, a discontinuation or a query
    unseen_dead = set()       # symbols discontinued before the exchange had ever been asked for their book
    if observe == "every" and not check_all(ctx, res, 0, "before any op"):
        return

    for step, op in enumerate(case["ops"]):
        code = op[0]
        where = "after op %d %s" % (step, op)
        if code == "q":
            _, ci, kk, bid, ask, bsz, asz, dt = op
            if bid is None or ask is None:
                # an empty side (null in the case) is a quote like any other: the most recently processed one
                res.tag("quote-with-empty-side")
                bid = NAN if bid is None else bid
                ask = NAN if ask is None else ask
            ci %= n
            mc = ctx.mcs[ci]
            t_ev = t_ev + timedelta(seconds=dt)
            if mc.kind == "chain":
                lead = mc.lead(ctx.clock)
                sym = lead.symbol
                contract = mc.obj if kk == 0 else chain_variant(mc, step)
                res.tag("quote-via-chain")
                if mc.month:
                    res.tag("quote-via-chain-month-offset")
                for m in mc.members:
                    if m.ltd == ctx.clock:
                        res.tag("chain-quote-at-last-trading-instant")
                    day = datetime(m.ltd.year, m.ltd.month, m.ltd.day)
                    if m.ltd != day:
                        res.tag("quote-via-chain-intraday-cutoff")
                        if day <= ctx.clock < m.ltd:
                            res.tag("chain-quote-on-last-trading-day-before-cutoff")
                        elif m.ltd <= ctx.clock < day + timedelta(days=1):
                            res.tag("chain-quote-on-last-trading-day-after-cutoff")
                prev = chain_leads.get(ci)
                if prev is not None and prev != sym:
                    res.tag("chain-roll")
                chain_leads[ci] = sym
            elif mc.kind == "future":
                sym = mc.symbol
                contract = mc.obj if kk == 0 else make_future(mc.desc[1], mc.desc[2], mc.desc[3])
            else:
                sym = mc.symbol
                contract = mc.obj if kk == 0 else make_asset(mc.desc[1], mc.desc[2], other=True)
            if kk:
                res.tag("quote-via-new-object")
            kwargs = {}
            if bsz is not None:
                kwargs["bid_size"] = bsz
            if asz is not None:
                kwargs["ask_size"] = asz
            ctx.ex.process_EventNBBO(EventNBBO(time=t_ev, contract=contract, bid_price=bid, ask_price=ask, **kwargs))
            mb = ctx.model[sym]
            touched.add(sym)
            if sym in unseen_dead:
                res.tag("discontinued-unseen-then-quoted")
            if mb.alive:
                mb.bid, mb.ask = bid, ask
                mb.bsz = INF if bsz is None else bsz
                mb.asz = INF if asz is None else asz
                mb.hist.append((t_ev, bid, ask, (ask + bid) / 2, mb.bsz, mb.asz))
                quoted.add(sym)
                if len(mb.hist) >= 2:
                    res.tag("requote")
            else:
                dead_then_quoted = True
                res.tag("dead-then-quoted")
                if mc.kind == "chain":
                    res.tag("dead-lead-quoted-via-chain")
        elif code == "d":
            _, ci, mi, kk, dt = op
            ci %= n
            mc = ctx.mcs[ci]
            t_ev = t_ev + timedelta(seconds=dt)
            if mc.kind == "chain":
                m = mc.members[mi % len(mc.members)]
                sym = m.symbol
                contract = make_future(m.cls, m.year, m.month)
                if mc.lead(ctx.clock).symbol == sym:
                    res.tag("lead-discontinued")
            elif mc.kind == "future":
                sym = mc.symbol
                contract = mc.obj if kk == 0 else make_future(mc.desc[1], mc.desc[2], mc.desc[3])
            else:
                sym = mc.symbol
                contract = mc.obj if kk == 0 else make_asset(mc.desc[1], mc.desc[2], other=True)
            ctx.ex.process_EventContractDiscontinued(EventContractDiscontinued(time=t_ev, contract=contract))
            mb = ctx.model[sym]
            if observe != "every" and sym not in touched:
                unseen_dead.add(sym)
                res.tag("discontinued-unseen")
            touched.add(sym)
            if not mb.alive:
                res.tag("discontinued-twice")
            elif mb.hist:
                res.tag("discontinued-with-history")
            else:
                res.tag("discontinued-unquoted")
            mb.alive = False
            mb.bid = mb.ask = mb.bsz = mb.asz = NAN
        elif code == "c":
            t = BASE + timedelta(seconds=op[1], microseconds=op[2] if len(op) > 2 else 0)
            if clock_limit is not None and not t < clock_limit:
                res.tag("clock-op-skipped")     # no lead would exist; the generator never draws this
            else:
                if t < ctx.clock:
                    res.tag("clock-backwards")
                ctx.clock = t
                AbstractContract.now = t
                res.tag("clock-set")
        elif code == "k":
            _, ci, kind, q = op
            mc = ctx.mcs[ci % n]
            if observe == "end":
                res.tag("query-skipped-observe-end")
                continue
            key, sym, used = resolve_query(ctx, mc, KINDS[kind % 4], step)
            touched.add(sym)
            res.tag("key-" + used)
            if used != "obj":
                nonidentity_query = True
            mb = ctx.model[sym]
            if not mb.hist and mb.alive:
                res.tag("query-before-first-quote")
            w = "%s, key %r (%s) expected to address %s" % (where, key, used, sym)
            ok = check_book(res, ctx.ex[key], mb, w)
            for fn, want in (("acq_price", mb.buy(q)), ("liq_price", mb.buy(-q))):
                got = getattr(ctx.ex[key], fn)(q)
                if not same(got, want):
                    res.fail("%s: %s(%r)=%r, model %r" % (w, fn, q, got, want))
                    ok = False
            ok = check_nan_sign(res, ctx.ex[key], w) and ok
            # the same key inside the vector getters, next to the canonical key of another symbol
            pool = ctx.syms if observe == "every" else [s for s in ctx.syms if s in touched]
            other = pool[(pool.index(sym) + 1) % len(pool)]
            ok = check_vectors(res, ctx.ex, [key, ctx.keysets[0][other], key], [mb, ctx.model[other], mb],
                               [q, -q, 0.0], w) and ok
            if not ok:
                return
        else:
            raise ValueError("unknown op %r" % (op,))
        if observe == "every":
            if not check_all(ctx, res, step + 1, where):
                return
        elif observe == "touched":
            if not check_all(ctx, res, step + 1, where, only=touched):
                return

    if observe != "every" and not check_all(ctx, res, len(case["ops"]), "after the last op (first full read)"):
        return
    if len(quoted) >= 2:
        res.tag("two-or-more-symbols-quoted")
    if observe == "end" and ctx.view != 0:
        nonidentity_query = True      # the only read of the history goes through clones / strings
    res.nontrivial = len(quoted) >= 2 and dead_then_quoted and nonidentity_query


# ------------------------------------------------------------------------------------------ generator

POOL_ASSETS = [["asset", "ETF", "SPY"], ["asset", "ETF", "IEF"], ["asset", "Stock", "MSFT"],
               ["asset", "Index", "S&P 500"], ["asset", "Stock", "BRK.b"], ["asset", "ETF", "spy"]]
POOL_FUTURES = [["future", "ES", 2019, 6], ["future", "ES", 2019, 9], ["future", "ES", 2019, 12],
                ["future", "ZN", 2019, 6], ["future", "ZN", 2019, 9], ["future", "NK", 2019, 9],
                ["future", "VX", 2019, 7], ["future", "VX", 2019, 8],
                ["future", "CL", 2019, 6], ["future", "CL", 2019, 7], ["future", "HO", 2019, 6]]
# month (0, 1 or 2, below the number of members) is appended by the generator
POOL_CHAINS = [["chain", "ES", "2019-03", "2020-06"], ["chain", "ES", "2019-06", "2019-12"],
               ["chain", "ZN", "2019-03", "2020-03"], ["chain", "VX", "2019-05", "2019-12"],
               ["chainlist", "ES", [[2019, 9], [2019, 6], [2020, 3]]],
               ["chainlist", "NK", [[2019, 12], [2019, 6], [2019, 9]]],
               ["chainlist", "ZN", [[2019, 6], [2019, 9]]],
               ["chain", "CL", "2019-04", "2019-10"], ["chainlist", "CL", [[2019, 8], [2019, 6], [2019, 7]]],
               ["chain", "HO", "2019-03", "2020-03"], ["chainlist", "HO", [[2019, 9], [2019, 6]]]]

_TIMES_CACHE = {}


def _boundaries(desc):
    """Generator-side only: last trading dates (seconds after BASE) of the futures behind a descriptor."""
    key = repr(desc)
    if key not in _TIMES_CACHE:
        mc = build_contract(desc)
        if mc.kind == "future":
            ltds = [mc.ltd]
        elif mc.kind == "chain":
            ltds = sorted(m.ltd for m in mc.members)
        else:
            ltds = []
        _TIMES_CACHE[key] = [_stamp(x) for x in ltds]
    return _TIMES_CACHE[key]


def _stamp(x):
    """datetime -> (whole seconds after BASE, microseconds)."""
    d = x - BASE
    return (d.days * 86400 + d.seconds, d.microseconds)


def _norm(sec, us):
    if us < 0:
        return (sec - 1, us + 1000000)
    if us >= 1000000:
        return (sec + 1, us - 1000000)
    return (sec, us)


def _clock_candidates(marks, limit):
    """Clock values around every last trading date: a day / an hour / a second / a microsecond before, exactly,
    a microsecond / a second / a day after; for intraday cut-offs also around 00:00 of that day and of the next."""
    out = set()
    for sec, us in marks:
        for dsec, dus in ((-86400, 0), (-3600, 0), (-1, 0), (0, -1), (0, 0), (0, 1), (1, 0), (86400, 0)):
            out.add(_norm(sec + dsec, us + dus))
        if sec % 86400 or us:
            day = sec - sec % 86400
            for base in (day, day + 86400):
                for dsec, dus in ((-1, 0), (0, 0), (0, 1), (6 * 3600, 0)):
                    out.add(_norm(base + dsec, dus))
    return sorted(c for c in out if (0, 0) <= c < limit)


def _mk_quote(t):
    code, ci, kk, bid, spread, bsz, asz, dt = t[:8]
    side = t[8] if len(t) > 8 else 0
    ask = bid + spread
    if side == 1:
        bid = None
    elif side == 2:
        ask = None
    elif side == 3:
        bid = ask = None
    return [code, ci, kk, bid, ask, bsz, asz, dt]


def _weighted(strategy, k):
    return [strategy.map(list) for _ in range(k)]


@st.composite
def histories(draw, tier="quick"):
    nchains = draw(st.sampled_from([0, 1, 1, 1, 2]))
    total = draw(st.integers(2, 5))
    nchains = min(nchains, total - 1)
    chains = draw(st.lists(st.sampled_from(POOL_CHAINS), min_size=nchains, max_size=nchains, unique_by=repr))
    chains = [c + [min(draw(st.sampled_from([0, 0, 1, 2])), len(_boundaries(c)) - 1)] for c in chains]
    others = draw(st.lists(st.sampled_from(POOL_FUTURES + POOL_ASSETS), min_size=total - nchains,
                           max_size=total - nchains, unique_by=repr))
    contracts = draw(st.permutations(chains + others))
    n = len(contracts)

    limit = None
    marks = []
    for d in contracts:
        b = _boundaries(d)
        if d[0] in ("chain", "chainlist"):
            last = b[len(b) - 1 - chain_month(d)]
            limit = last if limit is None else min(limit, last)
        marks.extend(b)
    if limit is None:
        limit = (600 * 86400, 0)
    cands = _clock_candidates(marks, limit)
    clock = st.tuples(st.integers(0, limit[0] - 1), st.just(0))
    if cands:
        clock = st.one_of(st.sampled_from(cands), st.sampled_from(cands), clock)

    ci = st.integers(0, n - 1)
    price = st.one_of(st.sampled_from([100, 99.9, 100.1, 0, 0.5]), st.integers(0, 500),
                      st.integers(0, 64000).map(lambda k: k / 64),
                      st.floats(min_value=0.0, max_value=1e6, allow_nan=False))
    spread = st.one_of(st.sampled_from([0, 0.1, 0.2, 1]), st.integers(1, 10), st.integers(1, 640).map(lambda k: k / 64),
                       st.floats(min_value=0.0, max_value=100.0, allow_nan=False))
    size = st.one_of(st.none(), st.integers(1, 10000), st.floats(min_value=0.5, max_value=1e6, allow_nan=False))
    quote = st.tuples(st.just("q"), ci, st.sampled_from([0, 0, 1]), price, spread, size, size,
                      st.sampled_from([0, 1, 60, 86400]), st.sampled_from([0] * 17 + [1, 2, 3])).map(_mk_quote)
    disc = st.tuples(st.just("d"), ci, st.integers(0, 7), st.sampled_from([0, 0, 1]), st.sampled_from([0, 1, 60, 86400])).map(list)
    setclock = clock.map(lambda c: ["c", c[0], c[1]])
    qty = st.sampled_from([1, -1, 0, 0.5, -0.25, 1e-12, -1e-12, 1000, -7, 0.0, -0.0])
    query = st.tuples(st.just("k"), ci, st.integers(0, 3), qty).map(list)
    # st.one_of drops repeated strategy objects, so weights are given with distinct wrappers
    op = st.one_of(*(_weighted(quote, 5) + _weighted(disc, 1) + _weighted(setclock, 1) + _weighted(query, 2)))
    lo = draw(st.sampled_from([0, 6, 12, 20, 30]))
    ops = draw(st.lists(op, min_size=lo, max_size=40))
    view = draw(st.sampled_from([3, 0, 1, 2, 3]))
    observe = draw(st.sampled_from(["every", "touched", "end"]))
    if observe != "every":
        # a contract is often delisted before the exchange was ever asked about it
        ops = draw(st.lists(disc, max_size=2)) + ops
    return {"contracts": list(contracts), "view": view, "observe": observe, "ops": ops}


def _keyed(case):
    # "a futures-chain key always addresses the book of its current lead contract", seen through an environment: a price
    # series published on the chain key is played through TradingEnv (generator, model and oracle shared with C11)
    from props import c11
    return c11.run_keyed(case)


def _keyed_cases(tier):
    from props import c11
    return c11.keyed_cases(tier)


# ------------------------------------------------------------------------------------------ deep histories
@st.composite
def _deep_cases(draw, tier="quick"):
    """One contract (plus a bystander) receiving tens of thousands of quotes: nothing about the statement depends on how
    long a history already is. Prices follow a deterministic sawtooth derived from the case, with repeats."""
    return {"n": draw(st.sampled_from([20000, 33000, 40000, 70000])) + draw(st.integers(0, 999)), "period": draw(st.integers(2, 97)),
            "repeat_every": draw(st.sampled_from([0, 3, 10])), "spread": draw(st.sampled_from([0.0, 0.25, 1.0])),
            "probe": draw(st.lists(st.integers(0, 10 ** 6), min_size=3, max_size=8)), "kind": draw(st.sampled_from(["etf", "es"]))}


def _deep(case):
    from datetime import datetime, timedelta
    from tradingenv.contracts import ETF, ES
    from tradingenv.events import EventNBBO
    from tradingenv.exchange import Exchange
    res = Result()
    ex = Exchange()
    c = ETF("DEEP") if case["kind"] == "etf" else ES(2030, 6)
    other = ETF("OTHER")
    t0 = datetime(2020, 1, 1)
    n, per, rep = case["n"], case["period"], case["repeat_every"]
    model = []
    ex.process_EventNBBO(EventNBBO(t0, other, 7.0, 8.0, 1.0, 1.0))
    for k in range(n):
        j = k - 1 if (rep and k % rep == rep - 1 and k > 0) else k          # now and then the very same quote again
        bid = 100.0 + (j % per) * 0.5
        ask = bid + case["spread"]
        t = t0 + timedelta(seconds=k)
        ex.process_EventNBBO(EventNBBO(t, c, bid, ask, 10.0 + (j % 7), 20.0))
        model.append((t, bid, ask))
    h = ex[c].history
    for key in ("time", "bid_price", "ask_price", "mid_price", "bid_size", "ask_size"):
        if len(h[key]) != n:
            res.fail("after %d accepted quotes the history of the contract lists %d records (%s)" % (n, len(h[key]), key))
            return res
    for i in sorted(set([0, 1, n - 1] + [p % n for p in case["probe"]])):
        t, bid, ask = model[i]
        got = (h["time"][i], h["bid_price"][i], h["ask_price"][i], h["mid_price"][i])
        if got != (t, bid, ask, (bid + ask) / 2):
            res.fail("history record %d of %d is %r, the %d-th accepted quote was %r" % (i, n, got, i, (t, bid, ask, (bid + ask) / 2)))
            return res
    b = ex[c]
    if (b.bid_price, b.ask_price) != (model[-1][1], model[-1][2]):
        res.fail("book shows %r : %r after %d quotes, last quote was %r : %r" % (b.bid_price, b.ask_price, n, model[-1][1], model[-1][2]))
    if len(ex[other].history["time"]) != 1 or ex[other].bid_price != 7.0:
        res.fail("a contract that received one quote shows %d records / bid %r" % (len(ex[other].history["time"]), ex[other].bid_price))
    res.nontrivial = n > 32768
    res.tag("deep:%d-thousand-quotes" % (n // 1000))
    if rep:
        res.tag("identical-consecutive-quotes")
    return res


PARTS = [Part("histories", strategy=lambda tier: histories(tier), run=run_history, quick=6000, thorough=80000),
         Part("keyed-env", strategy=_keyed_cases, run=_keyed, quick=800, thorough=20000),
         Part("deep", strategy=_deep_cases, run=_deep, quick=24, thorough=400)]
RULE = RULE + (" deep: one contract receives 20000-70000 accepted quotes (with identical consecutive quotes now and then); its history must list "
               "every one of them in order (length, probed records, head and tail), the book shows the last one, a bystander contract is untouched.")


# ---------------------------------------------------------------------------------------------------
# Sensitivity record (scratch copy of /repo/tradingenv, one mutant at a time,
# `VERIF_PKG_ROOT=<scratch> ./check C14 --tier quick --no-evidence`, VERIF_SEED=1; M6/M8/M9 also seeds 2-3;
# the whole list was re-run after the observation modes and the month offsets were added).
# Every mutant: exit 1 + VIOLATION, shrunk to 1-4 ops.
#   M1  process_EventNBBO updates dead books too                       caught (d, q -> price on a dead book)
#   M2  terminate() drops the history                                  caught (q, d -> history empty)
#   M3  __hash__ = hash((class name, symbol))                          caught (string key / other-class clone misses)
#   M4  acq_price(q<0) returns mid                                     caught (1 op)
#   M5  a quote for X also overwrites the ask of the book updated at the previous event time   caught (2 ops)
#   M6  FutureChain lead resolved with bisect_left                     caught (clock exactly at a last trading date,
#                                                                       then a chain-key quote lands in the stale lead)
#   M7  acq_price(q<=0) returns bid (flat priced at bid)               caught
#   M8  FutureChain.static_hashing caches the first lead               caught (q via chain, clock across a roll, q)
#   M9  history mid not recomputed when the bid is unchanged           caught only after sticky prices (100, 99.9,
#                                                                       100.1, ...) were added to the price strategy
#   M10 second terminate() revives the book                            caught
#   M11 terminate() keeps bid/ask sizes                                caught
#   M12 liq_price(0) returns bid                                       caught
#   M13 string keys normalised with strip().upper()                    caught only after mixed-case symbols
#                                                                       ('BRK.b', 'spy' next to 'SPY') were added
#   M14 default (infinite) bid size not stored                         caught
#   M15 discontinuation ignored for a never-quoted book                caught
#   M16 static_hashing applies the month offset with the wrong sign    caught (needs chains with month >= 1)
#   M17 discontinuation only for books already in Exchange._books (`.get`)   caught (needs observe != "every")
#   seeded/C14_A (discontinuation guarded by `event.contract in self._books`)   CAUGHT: was MISSED while every case
#       compared the whole exchange after every op, because that read creates every book (defaultdict);
#       observe="touched"/"end" plus 0-2 leading discontinuations fixed it.
#   seeded/C14_B (static_hashing adds FutureChain month offset twice)           CAUGHT: was MISSED while all chains
#       had month=0; chains now carry month 0/1/2.
#   seeded/C14_F (FutureChain stores normalize()d roll cut-offs)                CAUGHT: was MISSED while every future in
#       the pool stopped trading at 00:00; the user-defined CL/HO futures (cut-off 16:00 / 13:30:00.5) as plain
#       futures, span chains and list chains, with clock values at 00:00 of the last trading day, -1 h, -1 us, exact,
#       +1 us fixed it. seeded/C14_A..E stay CAUGHT, bisect_left (M6) re-checked.
# Note: st.one_of() de-duplicates repeated strategy objects; op weights use distinct .map wrappers.
# Unchanged tree: exit 0 for VERIF_SEED=1..5 (6000 histories: 23-24 s wall at load average 13 on the shared 16-core
# box, 40-65 s when it is oversubscribed two to three times), 36-43% of the histories are non-trivial.
