"""C10 Episodes are reproducible and environments are isolated."""
import copy

import numpy as np
from hypothesis import strategies as st

from vlib.runner import Part, Result
from vlib import envlab as E
from tradingenv.broker.broker import EndOfEpisodeError

ID = "C10"
RULE = ("Two generated configurations A and B per case (bar-shaped episodes over ETF / user spot / user margined / ES, or a FutureChain (ES, NK, "
        "ZN, VX) around a roll date, with a recording state that carries history (running sums, counters), fees, latency, delay, folds/episode "
        "length with a numpy seed from the case, optionally 'all defaults' for state/reward/fees), action sequences, a PREFIX for A (k steps of "
        "other actions then abandon / a complete episode / an episode ended by an invalid-action error / an episode started with a one-off "
        "reset(episode_length=k)) and an interleaving SCHEDULE (0/1 list). "
        "Oracle: bitwise trace equality (observations, rewards, done, executed trades with prices and fees, holdings, NLV, clock, recorder log): "
        "(1) fresh A alone = T_A; (2) A after the prefix, reset, same actions = T_A; (3) a second fresh build = T_A; (4) A and B stepped "
        "alternately per schedule produce T_A and T_B; (2b, every other case) a further episode on A started by a reset that directly follows an unstepped reset = T_A. All environments of a case are built before any is stepped. Non-trivial = non-empty prefix "
        "different from the replayed actions, schedule with >= 2 alternations, and a configuration with state carried in a feature or a chain.")
ASSUMPTIONS = [
    "schedules are sequential interleavings of reset/step calls (the library is single-threaded)",
    "traces are compared bitwise (float.hex / ndarray.tobytes)",
]


@st.composite
def configs(draw, tier="quick"):
    if draw(st.sampled_from([True, False, False])):
        c = draw(E.chain_episode_cases(tier, max_points=7))
    else:
        c = draw(E.episode_cases(tier, max_points=8))
        if draw(st.sampled_from([False, False, False, True])):
            c["use_defaults"] = True
        elif draw(st.sampled_from([False, False, True])):
            c["state"] = ["features", draw(st.booleans())]      # features, one of them without any event callback
        elif draw(st.sampled_from([False, False, True])) and all(s_["kind"] != "chain" for s_ in c["contracts"]):
            # the library's features with default transformers fitted at construction; modest bounds (the fitting backtest
            # draws random actions)
            hi = draw(st.sampled_from([0.25, 0.5, 1.0 / 3]))
            lo = draw(st.sampled_from([-hi, 0.0, -0.125]))
            c["state"] = ["library", lo, hi]
            c["space"] = ["box", lo, hi]
            c["delay"] = 0
            n_ = len(c["contracts"])
            c["actions"] = [[min(hi, max(lo, w)) for w in a_] for a_ in c["actions"]]
            c["action_type"] = "array64"
        if draw(st.sampled_from([False, False, True])):
            steps = len(c["gaps"])
            c["episode_length"] = draw(st.integers(1, max(1, steps - 2)))
        elif draw(st.sampled_from([False, True])):
            # a grid timestep without any event, and a fold starting there or later
            import bisect
            g = E.grid_of(c)
            gi = draw(st.integers(1, len(g) - 2))
            times = [g[e[0] % len(g)] + e[1] for e in c["extras"]] + [g[p[0] % len(g)] + p[1] for p in c["pings"]]
            if all(bisect.bisect_left(g, t) != gi for t in times if t <= g[-1]):
                c["empty_points"] = [gi]
                if draw(st.booleans()):
                    c["fold"] = [g[gi], g[-1]]
        if c.get("state", ["rec"])[0] == "library":
            c.pop("fold", None)        # fitting the transformers at construction runs an episode on the default fold
    return c


@st.composite
def cases(draw, tier="quick"):
    a = draw(configs(tier))
    b = draw(configs(tier))
    na = len(a["contracts"])
    k = draw(st.integers(0, len(a["actions"])))
    prefix_kind = draw(st.sampled_from(["abandon", "abandon", "complete", "error", "none", "short-episode"]))
    prefix_actions = [[draw(st.sampled_from([0.0, 0.3, -0.4, 0.7])) for _ in range(na)] for _ in range(k)]
    schedule = draw(st.lists(st.integers(0, 1), min_size=2, max_size=30))
    return {"a": a, "b": b, "prefix": {"kind": prefix_kind, "actions": prefix_actions},
            "schedule": schedule, "seed_a": draw(st.integers(0, 2 ** 20)), "seed_b": draw(st.integers(0, 2 ** 20))}


class Stepper:
    """Drives one environment call by call so that two of them can be interleaved."""

    def __init__(self, built, actions, seed):
        self.env = built.env
        self.fold = E.fold_name(built.case)
        self.actions = actions
        self.kind = built.case.get("action_type", "array64")
        self.seed = seed
        self.trace = []
        self.k = -1          # -1: reset pending
        self.finished = False

    def advance(self):
        if self.finished:
            return False
        env = self.env
        if self.k < 0:
            np.random.seed(self.seed)
            obs = env.reset(self.fold)
            snap = E.snapshot(env, obs, None, env._done, {})
            snap["log"] = E.log_key(env.state)
            self.trace.append(snap)
            self.k = 0
            if env._done or not self.actions:
                self.finished = True
            return True
        mark = len(getattr(env.state, "log", []))
        try:
            obs, reward, done, info = env.step(E.to_action(self.actions[self.k], self.kind))
        except Exception as exc:  # noqa
            self.trace.append({"exception": type(exc).__name__})
            self.finished = True
            return True
        snap = E.snapshot(env, obs, reward, done, info)
        snap["log"] = E.log_key(env.state)[mark:]
        self.trace.append(snap)
        self.k += 1
        if done or self.k >= len(self.actions):
            self.finished = True
        return True

    def run(self):
        while self.advance():
            pass
        return self.trace


def first_diff(t1, t2):
    for i, (x, y) in enumerate(zip(t1, t2)):
        if x != y:
            keys = [k for k in x if x.get(k) != y.get(k)] if isinstance(x, dict) and isinstance(y, dict) else ["?"]
            return "call %d differs in %s: %s vs %s" % (i, keys, {k: x.get(k) for k in keys[:2]}, {k: y.get(k) for k in keys[:2]})
    if len(t1) != len(t2):
        return "traces have %d and %d calls" % (len(t1), len(t2))
    return None


def run(case):
    res = Result()
    a, b = case["a"], case["b"]
    # (0) A built and run while it is the only environment that has ever existed for this case
    def built(cfg, seed):
        np.random.seed(seed)           # construction may itself run an episode (fit_transformers) with a sampled start
        return E.build(cfg)

    A0 = built(a, case["seed_a"])
    ta0 = Stepper(A0, a["actions"], case["seed_a"]).run()
    # build everything else first, then step
    A1, A2, A3 = built(a, case["seed_a"]), built(a, case["seed_a"]), built(a, case["seed_a"])
    B1, B3 = built(b, case["seed_b"]), built(b, case["seed_b"])
    ta = Stepper(A1, a["actions"], case["seed_a"]).run()
    d0 = first_diff(ta0, ta)
    if d0:
        res.fail("an environment gives a different trace once other environments have been BUILT in the process: " + d0)
    tb = Stepper(B1, b["actions"], case["seed_b"]).run()
    # (3) second fresh build
    d = first_diff(ta, Stepper(A2, a["actions"], case["seed_a"]).run())
    if d:
        res.fail("a freshly built identical environment gives a different trace: " + d)
    # (5) the same actions played through TradingEnv.backtest (the library's own episode loop) on that second build
    if not any("exception" in s for s in ta) and len(ta) > 1:
        from tradingenv.policy import AbstractPolicy

        class Replay(AbstractPolicy):
            def __init__(self, actions, kind, n):
                self.actions, self.kind, self.n, self.k = actions, kind, n, 0

            def act(self, state=None):
                k = self.k
                self.k += 1
                if k < len(self.actions):
                    return E.to_action(self.actions[k], self.kind)
                return E.to_action(self.actions[-1], self.kind)      # (beyond the compared prefix)

        if a.get("fold") and not a.get("episode_length"):
            # the environment has just been reset on ANOTHER fold and not stepped: the backtest must still run the fold it is given
            A2.env.reset("whole")
            res.tag("backtest-after-a-reset-on-another-fold")
        np.random.seed(case["seed_a"])
        try:
            track = A2.env.backtest(fold=E.fold_name(a), policy=Replay(a["actions"], a.get("action_type", "array64"), len(a["contracts"])))
            got = [E.rebalancing_key(track[i]) for i in range(len(track))]
        except EndOfEpisodeError:
            got = None          # (the tail beyond the compared prefix ruined the account on entry to a step: C09's business)
        want = [s["reb"] for s in ta[1:] if s.get("reb") is not None]
        if got is not None and got[:len(want)] != want:
            k = next((i for i, (x, y) in enumerate(zip(got, want)) if x != y), min(len(got), len(want)))
            res.fail("TradingEnv.backtest with a policy replaying the same actions records a different execution %d than the reset/step loop "
                     "(%d vs %d entries compared)" % (k, len(got), len(want)))
        res.tag("backtest-loop-compared")
    # (2) same env after a prefix
    pk = case["prefix"]["kind"]
    env = A1.env
    fold = E.fold_name(a)
    if pk == "short-episode":
        # a previous episode started with a one-off length, abandoned or completed
        np.random.seed(case["seed_a"] + 1)
        try:
            env.reset(fold, episode_length=2 + len(case["prefix"]["actions"]) % 3)
            for act in case["prefix"]["actions"]:
                if env._done:
                    break
                env.step(E.to_action(act))
        except Exception:  # noqa  (a length that does not fit is refused: fine, nothing started)
            pass
    elif pk != "none":
        np.random.seed(case["seed_a"] + 1)
        env.reset(fold)
        if pk == "complete":
            acts = a["actions"][::-1]
        else:
            acts = case["prefix"]["actions"]
        for act in acts:
            if env._done:
                break
            try:
                env.step(E.to_action(act))
            except Exception:  # noqa
                break
        if pk == "error" and not env._done:
            try:
                env.step(np.array([np.nan] * len(a["contracts"])))
            except Exception:  # noqa
                pass
    d = first_diff(ta, Stepper(A1, a["actions"], case["seed_a"]).run())
    if d:
        res.fail("replaying the same actions after reset (prefix: %s) gives a different trace: %s" % (pk, d))
    if len(case["schedule"]) % 2 == 0:
        # (2b) third (or later) episode on the same environment, started by a reset that directly follows an unstepped reset
        np.random.seed(case["seed_a"] + 2)
        env.reset(fold)
        d = first_diff(ta, Stepper(A1, a["actions"], case["seed_a"]).run())
        if d:
            res.fail("third episode on the same environment, after a reset that was itself followed by a reset, differs: " + d)
        res.tag("third-episode-after-double-reset")
    # (4) interleaving
    sa = Stepper(A3, a["actions"], case["seed_a"])
    sb = Stepper(B3, b["actions"], case["seed_b"])
    alternations = 0
    last = None
    for pick in case["schedule"]:
        s = sa if pick == 0 else sb
        if s.advance():
            if last is not None and last != pick:
                alternations += 1
            last = pick
    sa.run()
    sb.run()
    d = first_diff(ta, sa.trace)
    if d:
        res.fail("environment A stepped in alternation with B differs from A alone: " + d)
    d = first_diff(tb, sb.trace)
    if d:
        res.fail("environment B stepped in alternation with A differs from B alone: " + d)
    chain = any(s["kind"] == "chain" for s in a["contracts"]) or any(s["kind"] == "chain" for s in b["contracts"])
    stateful = not a.get("use_defaults")
    prefix_nonempty = pk != "none" and (pk in ("complete", "short-episode") or len(case["prefix"]["actions"]) > 0)
    res.nontrivial = prefix_nonempty and alternations >= 2 and (chain or stateful) and len(ta) > 2
    res.tag("prefix-" + pk)
    if chain:
        res.tag("chain")
    if all(any(s["kind"] == "chain" for s in c["contracts"]) for c in (a, b)):
        res.tag("two-chains")
    if a.get("use_defaults") or b.get("use_defaults"):
        res.tag("defaults")
    if a.get("episode_length") or b.get("episode_length"):
        res.tag("episode-length")
    if a.get("empty_points"):
        res.tag("event-less-grid-timestep")
    if a.get("state", ["rec"])[0] == "features" or b.get("state", ["rec"])[0] == "features":
        res.tag("state-given-as-features")
    if a.get("state", ["rec"])[0] == "library" or b.get("state", ["rec"])[0] == "library":
        res.tag("library-features-with-fitted-transformers")
    if a.get("state", ["rec"])[0] == "library" and b.get("state", ["rec"])[0] == "library":
        res.tag("two-environments-with-library-features")
    if alternations >= 2:
        res.tag("interleaved")
    if any("exception" in s for s in ta):
        res.tag("trace-with-exception")
    return res


PARTS = [Part("traces", strategy=lambda tier: cases(tier), run=run, quick=3500, thorough=100000)]
