"""C09 Insolvency safety: an account with NLV <= 0 never trades and the episode ends."""
import numpy as np
from hypothesis import strategies as st

from vlib.runner import Part, Result
from vlib import envlab as E
from vlib import brokerlab as B
from tradingenv.broker.broker import EndOfEpisodeError

ID = "C09"
US = E.US
RULE = ("env: episodes constructed so that a leveraged long (w in 1.5..5) or short position in a spot or margined contract is ruined at a chosen "
        "step j (first step or later) and PHASE: by a quote inside the latency window before the decision ('latent', the decision arrives broke) or "
        "by the step's own market events after the decision ('nonlatent'); the ruin either overshoots zero by >= 2% or, in dyadic scenarios "
        "(w in {2,4,-1,-2,-4}, prices powers of two), hits NLV == 0 exactly; prices may recover afterwards; any reward function; the observation is produced by a recording state or (one weights-space case in three) by the "
        "library's own FeaturePortfolioWeight + FeaturePrices; then a generated "
        "sequence of {step, step, reset+episode}. Oracle: (a) every track-record entry has pre-trade NLV > 0 and a decision arriving with ledger "
        "NLV <= 0 changes no position and adds no entry; (b) valuation raises EndOfEpisodeError iff ledger NLV <= 0, and returns it when asked not to "
        "raise; (c) the step in which the ledger NLV first becomes <= 0 RETURNS a 4-tuple with done=True; (d) every later step raises "
        "EndOfEpisodeError without touching holdings or track record until reset, after which a fresh episode runs. broker: leveraged histories "
        "through adverse quotes, clause (b) after every op and 'no rebalance executes while broke'. Non-trivial = ruin reached at step >= 1 with "
        "at least one earlier executed trade.")
ASSUMPTIONS = [
    "near-zero NLVs decided by rounding noise are not generated: overshoot >= 2% of the deposit, or exact zero with dyadic numbers",
    "ruin caused by a rebalance's own trading costs (post-trade valuation) is outside the listed quantifier (adverse price paths) and not generated",
]

REWARDS = [["simple"], ["log"], ["pnl"], ["logret", 0.01, 2.0, 0.1], ["custom"]]     # custom: a user-defined reward that never values the account


@st.composite
def cases(draw, tier="quick"):
    dyadic = draw(st.booleans())
    kind = draw(st.sampled_from(["uspot", "umargin", "etf", "es"]))
    if dyadic:
        w = draw(st.sampled_from([2.0, 4.0, -1.0, -2.0, -4.0]))
        p0 = draw(st.sampled_from([16.0, 64.0, 256.0]))
        mult = draw(st.sampled_from([1.0, 2.0, 8.0])) if kind in ("uspot", "umargin") else 1.0
        margin = draw(st.sampled_from([0.25, 0.5]))
        if kind == "es":
            kind = "umargin"
        over = 0.0
        spread = 0.0
    else:
        w = draw(st.floats(1.5, 5.0)) * draw(st.sampled_from([-1.0, 1.0]))
        if w < 0 and w > -1.2:
            w = -1.5
        p0 = draw(st.floats(5.0, 3000.0))
        mult = draw(st.sampled_from([0.5, 1.0, 10.0]))
        margin = draw(st.sampled_from([0.05, 0.1, 0.3]))
        over = draw(st.floats(0.02, 0.5))
        spread = draw(st.sampled_from([0.0, 0.0, 0.002]))
    phase = draw(st.sampled_from(["latent", "nonlatent"]))
    j = draw(st.integers(2 if phase == "latent" else 1, 5))
    tail = draw(st.integers(1, 3))
    gap = draw(st.sampled_from([60 * US, 3600 * US, 86400 * US]))
    lat = draw(st.sampled_from([US, gap // 2, gap - 1])) if phase == "latent" else draw(st.sampled_from([0, US, gap // 2]))
    return {"kind": kind, "mult": mult, "margin": margin, "p0": p0, "w": w, "dyadic": dyadic, "over": over, "spread": spread,
            "phase": phase, "ruin_step": j, "tail": tail, "gap": gap, "latency_us": lat,
            "recover": draw(st.booleans()), "reward": draw(st.sampled_from(REWARDS)),
            "after": draw(st.lists(st.sampled_from(["step", "step", "reset"]), min_size=1, max_size=4)),
            "hedge": draw(st.booleans()), "delay": 0, "as_contracts": draw(st.sampled_from([False, False, True])),
            # the observation is made of the library's own features (held weights, prices) instead of the recorder
            "library_state": draw(st.sampled_from([False, False, True])), "library_total": draw(st.booleans())}


def ruin_price(c):
    """Price at which NLV = D(1 + w (p/p0 - 1)) reaches zero, pushed further by the overshoot."""
    w = c["w"]
    p_zero = c["p0"] * (1 - 1 / w)
    if c["over"] == 0:
        return p_zero
    # move beyond: down for longs, up for shorts
    return p_zero * (1 - c["over"]) if w > 0 else p_zero * (1 + c["over"])


def to_env_case(c):
    j = c["ruin_step"]
    npts = j + 1 + c["tail"]
    gaps = [c["gap"]] * npts
    specs = [{"kind": c["kind"], "mult": c["mult"], "margin": c["margin"], "p0": c["p0"], "s0": 0.0}]
    if c["hedge"]:
        specs.append({"kind": "etf", "mult": 1.0, "margin": 0.1, "p0": 8.0, "s0": 0.0})
    n = len(specs)
    pr = ruin_price(c)
    rel = pr / c["p0"]
    bars = []
    prev = 1.0
    for gi in range(npts):
        if c["phase"] == "nonlatent" and gi == j:
            level = rel
        elif c["phase"] == "latent" and gi == j:
            level = 1.0 if c["recover"] else rel
        elif gi > j:
            level = 1.0 if c["recover"] else rel
        else:
            level = 1.0
        row = [[level / prev, c["spread"]]] + [[1.0, 0.0]] * (n - 1)
        prev = level
        bars.append(row)
    extras = []
    if c["phase"] == "latent":
        off = max(1, min(c["latency_us"], c["latency_us"] // 2 + 1))
        extras.append([j - 1, off, 0, rel, c["spread"]])
    actions = [[c["w"]] + [0.0625] * (n - 1) for _ in range(npts - 1)]
    space = ["box", -6.0, 6.0]
    if c.get("as_contracts"):
        # targets in numbers of contracts: the same position every step, so a decision arriving broke has nothing to trade
        q = c["w"] * 1024.0 / (c["p0"] * c["mult"] if c["kind"] in ("uspot", "umargin") else c["p0"] * {"etf": 1.0, "es": 50.0}[c["kind"]])
        actions = [[q] + [8.0] * (n - 1) for _ in range(npts - 1)]
        space = ["box", -1e9, 1e9, False]
    out = {"gaps": gaps, "contracts": specs, "bars": bars, "extras": extras, "rates": [], "pings": [],
           "latency_us": c["latency_us"], "delay": 0, "actions": actions, "reward": c["reward"], "fees": [0.0, 0.0],
           "markup": 0.0, "deposit": 1024.0, "space": space}
    if c.get("library_state") and not c.get("as_contracts"):
        # (weights space only: the weight feature declares a range of weights)
        out["state"] = ["library", 4 * space[1], 4 * space[2], False, bool(c.get("library_total"))]     # (transformers left unfitted: no backtest at construction)
    return out


def run_env(c):
    res = Result()
    case = to_env_case(c)
    b = E.build(case)
    tm = E.Timing(b)
    env = b.env
    n = b.n
    led = B.Ledger(n, b.mult, 1024.0, 0.0, 0.0)
    env.reset()
    j_ruin = c["ruin_step"]
    ruined_at = None
    trades_before = 0
    ntr = 0

    def holdings():
        return [float(env.broker.holdings_quantity.get(x, 0.0)).hex() for x in b.contracts]

    for j in range(1, len(tm.steps)):
        before = tm.delivered_before_execution(j)
        bid, ask, _, _ = E.Timing.book(before, n)
        for i in range(n):
            led.quote(i, bid[i], ask[i])
        nlv_dec = led.nlv()
        h0 = holdings()
        try:
            out = env.step(E.to_action(case["actions"][j - 1]))
        except EndOfEpisodeError as exc:
            res.fail("step %d raised EndOfEpisodeError instead of returning done (ledger NLV at decision %.6g, ruin planned at step %d, phase %s)" % (
                j, nlv_dec, j_ruin, c["phase"]))
            return finish(res, c, ruined_at, trades_before)
        obs, reward, done, info = out
        tr = env.broker.track_record
        # whatever happened to the account, the step has delivered the market events of the timestep it landed on
        landed = tm.delivered_after_step(j)
        if landed:
            t_last = E.dt(max(e[0] for e in landed))
            if env.now() != t_last:
                res.fail("step %d (ledger NLV at decision %.6g) left the environment at %s; the latest event of the timestep it landed on is stamped %s" % (
                    j, nlv_dec, env.now(), t_last))
                return finish(res, c, ruined_at, trades_before)
            if env.exchange.last_update != t_last:
                res.fail("step %d (ledger NLV at decision %.6g): the exchange was last updated at %s, the latest quote of the timestep is stamped %s" % (
                    j, nlv_dec, env.exchange.last_update, t_last))
                return finish(res, c, ruined_at, trades_before)
        if nlv_dec <= 0:
            # (a) the decision arrived broke
            if len(tr) != ntr or holdings() != h0 or info:
                res.fail("step %d: the decision arrived with ledger NLV %.6g <= 0 but something was executed (entries %d -> %d, holdings %s -> %s)" % (
                    j, nlv_dec, ntr, len(tr), h0, holdings()))
                return finish(res, c, ruined_at, trades_before)
            if not done:
                res.fail("step %d: the decision arrived with ledger NLV %.6g <= 0 but done=False" % (j, nlv_dec))
                return finish(res, c, ruined_at, trades_before)
            ruined_at = j
            break
        if len(tr) != ntr + 1:
            res.fail("step %d: solvent decision (ledger NLV %.6g) not executed" % (j, nlv_dec))
            return finish(res, c, ruined_at, trades_before)
        ntr += 1
        entry = tr[-1]
        if not entry.context_pre.nlv > 0:
            res.fail("track-record entry %d has pre-trade NLV %r <= 0" % (ntr, entry.context_pre.nlv))
            return finish(res, c, ruined_at, trades_before)
        for trd in entry.trades:
            led.trade(E_index(b, trd.contract), float(trd.quantity))
            trades_before += 1
        after = tm.delivered_after_step(j)
        bid, ask, _, _ = E.Timing.book(after, n)
        for i in range(n):
            led.quote(i, bid[i], ask[i])
        nlv_end = led.nlv()
        # (b) valuation
        try:
            got = env.broker.net_liquidation_value()
            raised = False
        except EndOfEpisodeError:
            raised = True
        if abs(nlv_end) > 1e-9 * led.scale() or c["dyadic"]:
            if raised != (nlv_end <= 0):
                res.fail("after step %d ledger NLV is %.12g but net_liquidation_value() %s" % (j, nlv_end, "raised" if raised else "returned %r" % got))
                return finish(res, c, ruined_at, trades_before)
            quiet = env.broker.net_liquidation_value(raise_if_broke=False)
            if not abs(quiet - nlv_end) <= 1e-9 * led.scale():
                res.fail("after step %d net_liquidation_value(False) = %.12g, ledger %.12g" % (j, quiet, nlv_end))
                return finish(res, c, ruined_at, trades_before)
        if nlv_end <= 0:
            # (c) first insolvent during this step's market events
            if not done:
                res.fail("step %d: ledger NLV became %.6g <= 0 during the step but done=False" % (j, nlv_end))
                return finish(res, c, ruined_at, trades_before)
            ruined_at = j
            break
        if done:
            break
    if ruined_at is None:
        res.excluded = "ruin-not-reached"
        return finish(res, c, ruined_at, trades_before)
    if ruined_at != j_ruin:
        res.tag("ruin-earlier-than-planned")
    # (d) afterwards
    for op in c["after"]:
        if op == "step":
            h0 = holdings()
            n0 = len(env.broker.track_record)
            try:
                env.step(E.to_action(case["actions"][0]))
                res.fail("a step after the end of the episode (ruin at step %d) was accepted" % ruined_at)
                return finish(res, c, ruined_at, trades_before)
            except EndOfEpisodeError:
                pass
            if holdings() != h0 or len(env.broker.track_record) != n0:
                res.fail("a refused step after the ruin changed holdings or the track record")
                return finish(res, c, ruined_at, trades_before)
        else:
            env.reset()
            if len(env.broker.track_record) != 0 or env.broker.net_liquidation_value() != 1024.0:
                res.fail("reset after a ruin does not start from a fresh account")
                return finish(res, c, ruined_at, trades_before)
            try:
                obs, reward, done, info = env.step(np.zeros(n))
            except Exception as exc:  # noqa
                res.fail("first step of a fresh episode after a ruin raised %s" % type(exc).__name__)
                return finish(res, c, ruined_at, trades_before)
            if done and len(tm.steps) > 2:
                res.fail("fresh episode after a ruin is done after its first step")
                return finish(res, c, ruined_at, trades_before)
            res.tag("reset-after-ruin")
            break
    return finish(res, c, ruined_at, trades_before)


def E_index(b, contract):
    for i, x in enumerate(b.contracts):
        if x.symbol == contract.symbol:
            return i
    raise KeyError(contract)


def finish(res, c, ruined_at, trades_before):
    res.nontrivial = ruined_at is not None and ruined_at >= 1 and trades_before >= 1
    if c.get("library_state") and not c.get("as_contracts"):
        res.tag("state-made-of-library-features")
    res.tag("phase-" + c["phase"], "dyadic-exact-zero" if c["dyadic"] else "overshoot", "long" if c["w"] > 0 else "short",
            "margined" if c["kind"] in ("umargin", "es") else "spot", "reward-" + c["reward"][0],
            "targets-in-contracts" if c.get("as_contracts") else "targets-in-weights")
    if c["recover"]:
        res.tag("recovers")
    if ruined_at == 1:
        res.tag("ruin-at-first-step")
    return res


def run_broker(case):
    res = Result()
    lab, stats = B.run_history(case, "c09", res)
    res.nontrivial = stats["insolvent"] and stats["trades"] >= 1
    if stats["insolvent"]:
        res.tag("insolvent")
    return res


PARTS = [
    Part("env", strategy=lambda tier: cases(tier), run=run_env, quick=4000, thorough=200000),
    Part("broker", strategy=lambda tier: B.ruin_histories(tier), run=run_broker, quick=4000, thorough=200000),
]
