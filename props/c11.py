"""C11 Futures chains always trade the live lead contract and roll before expiry."""
from datetime import datetime, timedelta

import numpy as np
from hypothesis import strategies as st

from vlib.runner import Part, Result
from vlib import envlab as E
from vlib import brokerlab as B
from tradingenv import contracts as C
from tradingenv.contracts import AbstractContract, FutureChain
from tradingenv.exchange import Exchange
from tradingenv.events import EventNBBO

ID = "C11"
US = E.US
CLASSES = ["ES", "NK", "ZN", "ZT", "ZF", "ZB", "ZQ", "VX"]
RULE = ("resolution: class x span (1970-2099) x month offset 0-2 x instants placed at every listed contract's last-trading instant and +-1us "
        "plus free instants; model = linear scan for the earliest last-trading date strictly greater than the instant, shifted by the offset; checked "
        "through lead_contract(t) and through the clock path (AbstractContract.now = t: symbol, static_hashing(), Exchange[chain], quotes addressed "
        "to the chain key); the resolved contract is never past its last trading date and only moves forward as t advances. rolling: chain "
        "environments (ES, NK, ZN, VX, offset 0-1) on grids starting a few days before a last-trading date with gaps shorter than the roll window, "
        "quotes with spread for every unexpired contract, target weights of either sign, thresholds {0, 5%, 50%}; after every executed rebalance the "
        "only chain contract with a non-zero position is the model's lead at the execution time, the allocation is keyed by it, the position "
        "follows q*M*px = w*NLV_pre when the imbalance clears the threshold, and nothing is held at or after its expiry. keyed: a continuous price series published "
        "on the chain key (EventNBBO(contract=chain)) and played through an environment over grids that straddle a last-trading date (gaps 1 h - 3 days, "
        "quotes on and between grid points, optional state that resolves the chain key from its quote callback): every book's history must list exactly "
        "the quotes whose own timestamp makes that contract the lead, and after every step the chain key reads the lead's last quote. Non-trivial = an "
        "instant exactly on a last-trading date (resolution) / an episode with a roll while a position is open (rolling) / a series that crosses a "
        "roll (keyed).")
ASSUMPTIONS = [
    "the model trusts Future.last_trading_date / expiry of the listed contracts (their correctness is C19)",
    "instants are inside the chain's span: a lead (shifted by the offset) exists",
]


def to_dt(x):
    return datetime(x.year, x.month, x.day, x.hour, x.minute, x.second, x.microsecond)


@st.composite
def resolution_cases(draw, tier="quick"):
    cls = draw(st.sampled_from(CLASSES))
    y = draw(st.integers(1970, 2090))
    m = draw(st.integers(1, 12))
    span = draw(st.integers(6, 60))
    month = draw(st.sampled_from([0, 0, 1, 2]))
    instants = draw(st.lists(st.tuples(st.integers(0, 30), st.sampled_from([-1, 0, 0, 1, -86400 * US, 86400 * US, 3600 * US]),
                                       st.integers(-40 * 86400, 40 * 86400)), min_size=1, max_size=12))
    # the chain may also be given as an explicit, unsorted contract list (the constructor sorts it)
    perm = draw(st.one_of(st.none(), st.lists(st.integers(0, 10 ** 6), min_size=30, max_size=30)))
    # a second chain of another class / start, resolved at the same instants in alternation with the first
    other = draw(st.one_of(st.none(), st.tuples(st.sampled_from(CLASSES), st.integers(-3, 3), st.booleans())))
    return {"cls": cls, "start": [y, m], "span": span, "month": month, "instants": [list(i) for i in instants],
            "explicit_order": perm, "other": list(other) if other else None}


def model_lead(ltds, t, month):
    for k, ltd in enumerate(ltds):
        if ltd > t:
            return k + month
    return None


def run_resolution(case):
    res = Result()
    cls = getattr(C, case["cls"])
    y, m = case["start"]
    em = y * 12 + (m - 1) + case["span"]
    start = "%04d-%02d" % (y, m)
    end = "%04d-%02d" % (min(em // 12, 2099), em % 12 + 1)
    chain = FutureChain(cls, start, end, month=case["month"])
    if case.get("explicit_order") and len(chain.contracts) >= 2:
        listed = list(chain.contracts)
        keys = case["explicit_order"]
        shuffled = [c for _, c in sorted(zip([(keys[i % len(keys)], i) for i in range(len(listed))], listed), key=lambda x: x[0])]
        chain = FutureChain(contracts=shuffled, month=case["month"])
        res.tag("explicit-unsorted-list")
    cs = chain.contracts
    if len(cs) < case["month"] + 2:
        res.excluded = "chain-too-short"
        return res
    other = None
    if case.get("other"):
        ocls, dy, first = case["other"]
        oy = min(max(y + dy, 1970), 2090)
        other = FutureChain(getattr(C, ocls), "%04d-%02d" % (oy, m), "%04d-%02d" % (min(oy + 6, 2099), 12))
        other_ltds = [to_dt(c.last_trading_date) for c in other.contracts]
        res.tag("two-chains-alternating")
    ltds = [to_dt(c.last_trading_date) for c in cs]
    exact = 0
    times = []
    for (k, delta, free) in case["instants"]:
        k = k % len(cs)
        if delta in (-1, 0, 1):
            t = ltds[k] + timedelta(microseconds=delta)
            exact += delta == 0
        else:
            t = ltds[k] + timedelta(microseconds=delta) + timedelta(seconds=free)
        times.append(t)
    prev_idx = None
    ex = Exchange()
    for t in sorted(times):
        want = model_lead(ltds, t, case["month"])
        if want is None or want >= len(cs):
            # outside the chain's span no listed contract is still trading (shifted by the offset): whatever the call does,
            # it must not hand out a contract that is past its last trading date
            try:
                got = chain.lead_contract(t)
            except Exception:  # noqa
                res.tag("beyond-span-refused")
                continue
            if case["month"] == 0 and not to_dt(got.last_trading_date) > t:
                res.fail("at %s, after the last trading date of every listed contract, lead_contract returned %s whose last trading date is %s" % (
                    t, got.symbol, got.last_trading_date))
                return res
            continue
        if other is not None:
            ow = model_lead(other_ltds, t, 0)
            if ow is not None and ow < len(other.contracts):
                if case["other"][2]:
                    other.lead_contract(t)          # the other chain is resolved first at the same instant
                got_o = other.lead_contract(t)
                if got_o.symbol != other.contracts[ow].symbol:
                    res.fail("second chain (%s): lead_contract(%s) = %s, model %s" % (case["other"][0], t, got_o.symbol, other.contracts[ow].symbol))
                    return res
        got = chain.lead_contract(t)
        if got.symbol != cs[want].symbol:
            res.fail("%s chain (offset %d): lead_contract(%s) = %s, earliest last-trading date strictly after it belongs to %s (%s)" % (
                case["cls"], case["month"], t, got.symbol, cs[want].symbol, ltds[want - case["month"]]))
            return res
        AbstractContract.now = t
        if other is not None and ow is not None and ow < len(other.contracts):
            if other.symbol != other.contracts[ow].symbol:
                res.fail("second chain (%s): clock path at %s resolves to %s, model %s" % (case["other"][0], t, other.symbol, other.contracts[ow].symbol))
                return res
        if chain.symbol != cs[want].symbol or chain.static_hashing().symbol != cs[want].symbol:
            res.fail("clock path at %s resolves to %s / %s, model lead is %s" % (t, chain.symbol, chain.static_hashing().symbol, cs[want].symbol))
            return res
        if case["month"] == 0 and not to_dt(got.last_trading_date) > t:
            res.fail("resolved contract %s is past its last trading date %s at %s" % (got.symbol, got.last_trading_date, t))
            return res
        if prev_idx is not None and want < prev_idx:
            res.fail("model error: lead moved backwards")      # cannot happen; guards the model
        prev_idx = want
        # a quote addressed to the chain key lands in the lead's book
        px = 100.0 + want
        ex.process_EventNBBO(EventNBBO(t, chain, px, px + 1))
        if ex[cs[want]].bid_price != px or ex[chain].bid_price != px:
            res.fail("a quote addressed to the chain key at %s is not in the book of the lead %s" % (t, cs[want].symbol))
            return res
        for j, c in enumerate(cs):
            if j != want and ex[c].time == t:
                res.fail("a quote addressed to the chain key at %s touched the book of %s, lead is %s" % (t, c.symbol, cs[want].symbol))
                return res
    res.nontrivial = exact > 0
    res.tag(case["cls"], "offset=%d" % case["month"])
    if exact:
        res.tag("instant-exactly-on-last-trading-date")
    return res


# --------------------------------------------------------------------------------------------- rolling

def run_rolling(case):
    res = Result()
    b = E.build(case)
    tm = E.Timing(b)
    env = b.env
    chain = b.contracts[0]
    futs = chain.contracts
    ltds = [to_dt(f.last_trading_date) for f in futs]
    month = case["contracts"][0].get("month", 0)
    thr = case.get("threshold", 0.0)
    delay = case.get("delay", 0)
    env.reset()
    rolled_with_position = 0
    last_lead = None
    executions = 0
    for j in range(1, len(tm.steps)):
        if j - 1 >= len(case["actions"]):
            break
        obs, reward, done, info = env.step(E.to_action(case["actions"][j - 1]))
        before = tm.delivered_before_execution(j)
        t_exec = E.dt(max(e[0] for e in before))
        lead = model_lead(ltds, t_exec, month)
        hq = env.broker.holdings_quantity
        pos = [float(hq.get(f, 0.0)) for f in futs]
        now = env.now()
        for u, f in enumerate(futs):
            if pos[u] != 0 and not now < to_dt(f.expiry):
                res.fail("%s is still held (%r) at %s, at or after its expiry %s" % (f.symbol, pos[u], now, f.expiry))
                return finish(res, case, rolled_with_position, executions)
        if info:
            executions += 1
            entry = env.broker.track_record[-1]
            src = j - 1 - delay
            w = case["actions"][src][0] if src >= 0 else 0.0
            for u, f in enumerate(futs):
                if u != lead and pos[u] != 0:
                    res.fail("after the rebalance executed at %s contract %s holds %r although the lead is %s" % (
                        t_exec, f.symbol, pos[u], futs[lead].symbol))
                    return finish(res, case, rolled_with_position, executions)
            keys = [c.symbol for c in entry.allocation if any(c.symbol == f.symbol for f in futs)]
            if w != 0 and keys != [futs[lead].symbol]:
                res.fail("allocation executed at %s is keyed by %s, the lead is %s" % (t_exec, keys, futs[lead].symbol))
                return finish(res, case, rolled_with_position, executions)
            for trd in entry.trades:
                if any(trd.contract.symbol == f.symbol for f in futs) and trd.quantity * 0 == 0:
                    u = [f.symbol for f in futs].index(trd.contract.symbol)
                    if u != lead and abs(float(hq.get(futs[u], 0.0))) != 0:
                        res.fail("trade in %s did not close it" % futs[u].symbol)
            rolled = last_lead is not None and lead != last_lead
            if rolled and any(t.contract.symbol == futs[last_lead].symbol for t in entry.trades):
                rolled_with_position += 1
            if w != 0 and (thr == 0.0 or (rolled and abs(w) >= thr + 1e-9)):
                # position law in the (new) lead at prevailing quotes
                bid = ask = None
                for e in before:
                    if e[2] == "QU" and e[3][0] == 0 and e[3][1] == lead:
                        bid, ask = e[3][2], e[3][3]
                px = ask if w > 0 else bid
                lhs = pos[lead] * float(chain.multiplier) * px
                rhs = w * float(entry.context_pre.nlv)
                if not B.close(lhs, rhs, rel=1e-9, abs_=1e-9 * abs(rhs)):
                    res.fail("after the rebalance at %s the lead %s holds %r: position x multiplier x quote = %.12g, weight x NLV_pre = %.12g" % (
                        t_exec, futs[lead].symbol, pos[lead], lhs, rhs))
                    return finish(res, case, rolled_with_position, executions)
            last_lead = lead
        if done:
            break
    return finish(res, case, rolled_with_position, executions)


def finish(res, case, rolled, executions):
    res.nontrivial = rolled > 0
    res.tag(case["contracts"][0]["cls"], "offset=%d" % case["contracts"][0].get("month", 0), "threshold=%g" % case.get("threshold", 0.0))
    if rolled:
        res.tag("roll-with-open-position")
    return res


# ----------------------------------------------------------------------------------- chain-keyed price stream

@st.composite
def keyed_cases(draw, tier="quick"):
    cls = draw(st.sampled_from(["ES", "NK", "ZN", "VX"]))
    y = draw(st.integers(2000, 2080))
    m = draw(st.integers(1, 12))
    month = draw(st.sampled_from([0, 0, 1]))
    k = draw(st.integers(0, 2))
    back_h = draw(st.sampled_from([0, 1, 12, 24, 25, 47, 48, 72, 100]))
    npts = draw(st.integers(3, 9))
    gaps_h = draw(st.lists(st.sampled_from([24, 24, 24, 12, 23, 25, 48, 72, 1]), min_size=npts - 1, max_size=npts - 1))
    # per grid point: is a chain-keyed quote stamped exactly on it, and offsets (hours before it) of further ones
    quotes = draw(st.lists(st.tuples(st.sampled_from([True, True, True, False]),
                                     st.lists(st.sampled_from([0.5, 1, 6, 11]), max_size=2, unique=True)),
                           min_size=npts, max_size=npts))
    quotes = [[a, list(b)] for a, b in quotes]
    quotes[0][0] = True        # the series starts on the first grid point (an environment without events is not a use case)
    via_backtest = draw(st.sampled_from([False, False, True]))
    if via_backtest:
        quotes[-1][0] = True       # at least one decision: backtest() steps once before looking at `done`
    return {"cls": cls, "start": [y, m], "month": month, "k": k, "back_h": back_h, "gaps_h": gaps_h,
            "quotes": quotes, "reader": draw(st.booleans()), "via_backtest": via_backtest}


def run_keyed(case):
    """A continuous price series published on the chain key and played through an environment: every quote must be
    filed in the book of the contract that leads at the quote's own timestamp."""
    from tradingenv.env import TradingEnv
    from tradingenv.spaces import BoxPortfolio
    from tradingenv.transmitter import Transmitter
    res = Result()
    cls = getattr(C, case["cls"])
    y, m = case["start"]
    em = y * 12 + (m - 1) + 18
    chain = FutureChain(cls, "%04d-%02d" % (y, m), "%04d-%02d" % (em // 12, em % 12 + 1), month=case["month"])
    futs = chain.contracts
    ltds = [to_dt(f.last_trading_date) for f in futs]
    k = min(case["k"], len(futs) - 1)
    t0 = ltds[k] - timedelta(hours=case["back_h"])
    grid = [t0]
    for g in case["gaps_h"]:
        grid.append(grid[-1] + timedelta(hours=g))
    events, model = [], {f.symbol: [] for f in futs}
    px = 100.0
    stamps = set()
    for gi, (on_grid, offs) in enumerate(case["quotes"]):
        ts = ([grid[gi]] if on_grid else []) + [grid[gi] - timedelta(hours=o) for o in offs if gi > 0]
        for t in ts:
            if t in stamps or t < grid[0]:
                continue
            stamps.add(t)
    crossed = 0
    for t in sorted(stamps):
        want = model_lead(ltds, t, case["month"])
        if want is None or want >= len(futs):
            res.excluded = "beyond-span"
            return res
        px += 1.0
        events.append(EventNBBO(t, chain, px, px + 0.5))
        if model[futs[want].symbol] == [] and want > 0 and any(model[f.symbol] for f in futs[:want]):
            crossed += 1
        model[futs[want].symbol].append((t, px))
    seen = []

    class Reader(E.IState):
        """What a state (feature) resolving the chain key from its quote callback is shown."""
        def process_EventNBBO(self, event):
            if event.contract is chain:
                seen.append((to_dt(event.time), chain.symbol, chain.static_hashing().symbol))

        def parse(self):
            return np.zeros(1)

    tr = Transmitter(timesteps=grid)
    tr.add_events(events)
    kwargs = {"state": Reader()} if case.get("reader") else {}
    env = TradingEnv(action_space=BoxPortfolio([chain], low=-1.0, high=1.0), transmitter=tr, initial_cash=1000.0, **kwargs)
    if case.get("via_backtest"):
        # the library's own episode loop; afterwards the environment is still alive and the chain must resolve at its time
        from tradingenv.policy import AbstractPolicy

        class Flat(AbstractPolicy):
            def act(self, state=None):
                return np.array([0.0])

        env.backtest(policy=Flat())
        res.tag("episode-run-by-backtest")
        now = to_dt(env.now())
        want = model_lead(ltds, now, case["month"])
        if want is not None and want < len(futs):
            if chain.symbol != futs[want].symbol or chain.static_hashing().symbol != futs[want].symbol:
                res.fail("after backtest() the environment stands at %s but the chain resolves to %s; the lead at that instant is %s" % (
                    now, chain.symbol, futs[want].symbol))
                return _fin_keyed(res, case, crossed)
            mine = [p for (t, p) in model[futs[want].symbol] if t <= now]
            got = env.exchange[chain].bid_price
            if mine and got != mine[-1]:
                res.fail("after backtest(), at %s, the chain key reads bid %r; the lead %s was last quoted %r" % (now, got, futs[want].symbol, mine[-1]))
                return _fin_keyed(res, case, crossed)
    else:
        env.reset()
    for _ in range(len(grid) - 1 if not case.get("via_backtest") else 0):
        try:
            obs, reward, done, info = env.step(np.array([0.0]))
        except Exception as exc:  # noqa
            if type(exc).__name__ == "EndOfEpisodeError":
                break
            raise
        now = to_dt(env.now())
        want = model_lead(ltds, now, case["month"])
        delivered = [(t, p) for sym in model for (t, p) in model[sym] if t <= now]
        if want is not None and want < len(futs):
            # (the contracts clock is left as the step left it)
            mine = [p for (t, p) in model[futs[want].symbol] if t <= now]
            got = env.exchange[chain].bid_price
            if mine and got != mine[-1]:
                res.fail("at %s the chain key reads bid %r; the lead %s was last quoted %r" % (now, got, futs[want].symbol, mine[-1]))
                return _fin_keyed(res, case, crossed)
        if done:
            break
    end = to_dt(env.now())
    for (t, sym, sym2) in seen:
        want = futs[model_lead(ltds, t, case["month"])].symbol
        if sym != want or sym2 != want:
            res.fail("while the chain-keyed quote stamped %s is dispatched, a state resolving the chain key gets %s / %s; the lead at that instant is %s" % (
                t, sym, sym2, want))
            return _fin_keyed(res, case, crossed)
    for f in futs:
        want_rows = [(t, p) for (t, p) in model[f.symbol] if t <= end]
        hist = env.exchange[f].history
        got_rows = list(zip([to_dt(t) for t in hist["time"]], [float(x) for x in hist["bid_price"]]))
        if got_rows != want_rows:
            res.fail("book of %s (last trading date %s) recorded the chain-keyed quotes %s; by their timestamps it should hold %s" % (
                f.symbol, f.last_trading_date, [(str(t), p) for t, p in got_rows][:4], [(str(t), p) for t, p in want_rows][:4]))
            break
    return _fin_keyed(res, case, crossed)


def _fin_keyed(res, case, crossed):
    res.nontrivial = crossed > 0
    res.tag(case["cls"], "offset=%d" % case["month"])
    if crossed:
        res.tag("stream-crosses-a-roll")
    return res


PARTS = [
    Part("keyed", strategy=lambda tier: keyed_cases(tier), run=run_keyed, quick=1500, thorough=40000),
    Part("resolution", strategy=lambda tier: resolution_cases(tier), run=run_resolution, quick=3000, thorough=100000),
    Part("rolling", strategy=lambda tier: E.chain_episode_cases(tier, with_etf=True), run=run_rolling, quick=2500, thorough=80000),
]
