"""C15 Folds, episode length, walk-forward.

Every quantity of a case is an integer number of minutes after BASE (grid points, event times,
fold bounds), so the reference model is integer arithmetic only; datetimes are built only to
feed tradingenv.

Part `episodes`    runs a real TradingEnv (one ETF, zero-weight rebalances) over a generated grid,
                   events, fold dictionary and episode length; ~200 numpy seeds per case, then 0-3 further
                   resets on the SAME environment (default reset / reset with another explicit length, same or
                   another fold), each held to the same oracle: a default reset must use the constructor's
                   length (or the whole fold) whatever an earlier reset(episode_length=) asked for.
Part `transmitter` drives Transmitter._reset/_next/_now alone with the same model (cheaper, more cases,
                   markov_reset on/off, delivered events checked as well).
Part `walk_forward` enumerates every (n in 2..60, train, test, sliding/expanding, datetime/pandas grid)
                   with train + test <= n.
"""
from datetime import datetime, timedelta

import numpy as np
import pandas as pd
from hypothesis import strategies as st

from vlib.runner import Part, Result
from tradingenv.env import TradingEnv
from tradingenv.transmitter import Transmitter, Folds
from tradingenv.contracts import ETF, Index
from tradingenv.events import EventNBBO
from tradingenv.state import IState
from tradingenv.rewards import RewardSimpleReturn
from tradingenv.broker.fees import BrokerFees

ID = "C15"
RULE = ("episodes/transmitter: Hypothesis draws a grid of 2-12 timesteps (gaps 2..4000 minutes, so dates change) handed over "
        "in a generated order (chronological, newest-first, rotated, shuffled, with repeated entries, as list or "
        "DatetimeIndex, optionally partly through add_timesteps), markov_reset on/off (then no event precedes the "
        "earliest grid point), "
        "0-2 quote events per grid point placed on the point or strictly inside the preceding gap (some points bear "
        "no event; events after the last point are dropped), 0-3 possibly overlapping fold windows whose bounds lie "
        "on / strictly between / outside grid points, the selected fold, how the length is given (none, constructor "
        "n decisions, reset L = n+1 states, reset overriding a constructor length), n in 1..S+1 where S is the number "
        "of event-bearing timesteps of the fold, optional sampling_span, and a base numpy seed; 200 (+ up to 600) "
        "seeds are drawn per case; episodes then appends 0-3 follow-up resets on the same environment (default or explicit "
        "length, same or another fold). Non-trivial = the fold window cuts the grid strictly inside (an event-bearing "
        "timestep lies outside it), a grid point without events lies inside the window, and the episode makes >= 2 "
        "decisions. walk_forward: exhaustive enumeration of n in 2..60 x train x sliding/expanding x grid kind, every "
        "test size with train + test <= n inside the case; non-trivial = at least two folds produced.")
ASSUMPTIONS = [
    "reference model in integer minutes: slot of an event = first grid point >= event time; fold steps = slots in [start, end]",
    "n decisions need n + 1 consecutive event-bearing timesteps: valid starts are the first S - n steps of the fold; "
    "n >= S leaves none and the reset must raise (any exception type accepted)",
    "TradingEnv.now() reports the time of the last processed event; it is mapped to its grid slot before comparison",
    "uniform reachability: 200 seeds, then up to 600 case-derived seeds for a start still unseen; only unseen after 800 "
    "draws fails (probability < 1e-30 for a uniform sampler over <= 11 starts); with sampling_span only the subset clause",
    "reset(episode_length=1) / Transmitter._reset(episode_length=1) (one state, zero decisions) is outside the quantifier "
    "(n >= 1) and is not generated",
    "walk_forward stride = test_size is asserted because the docstring promises it; maximality of the fold list is not asserted",
    "zero-weight actions np.zeros(1): no price is needed, so a fold may start on a step without an ETF quote",
]

BASE = datetime(2020, 1, 1, 9, 0)
ONE_MIN = timedelta(minutes=1)
FOLD_NAMES = ["training-set", "test-set", "validation"]
N_SEEDS = 200
N_EXTRA = 600


def T(m):
    return BASE + timedelta(minutes=int(m))


def minutes_of(t):
    """datetime / pandas.Timestamp / numpy.datetime64 -> integer minutes after BASE (None if not whole)."""
    if isinstance(t, np.datetime64):
        t = pd.Timestamp(t)
    if not isinstance(t, datetime) or t is pd.NaT:
        return None
    t = datetime(t.year, t.month, t.day, t.hour, t.minute, t.second, t.microsecond)
    q, r = divmod(t - BASE, ONE_MIN)
    return q if r == timedelta(0) else None


# ------------------------------------------------------------------------------------------ model

def model_grid(case):
    g = [case["g0"]]
    for gap in case["gaps"]:
        g.append(g[-1] + gap)
    return g


def slot_of(grid, minute):
    """First grid point >= minute; None for an event after the last grid point."""
    for g in grid:
        if g >= minute:
            return g
    return None


def model_slots(grid, events):
    """Sorted event-bearing grid points and the number of events per slot."""
    per = {}
    for minute, _kind in events:
        s = slot_of(grid, minute)
        if s is not None:
            per[s] = per.get(s, 0) + 1
    return sorted(per), per


def fold_window(case):
    if not case["folds"]:
        return None, None
    return tuple(case["folds"][case["fold"]])


def in_window(x, lo, hi):
    return (lo is None or lo <= x) and (hi is None or x <= hi)


def fold_steps(slots, lo, hi):
    return [s for s in slots if in_window(s, lo, hi)]


def extra_seed(seed0, i):
    return (seed0 * 7919 + 1000003 + 31 * i) % (2 ** 32)


# ------------------------------------------------------------------------------------------ generator

@st.composite
def episode_cases(draw, tier="quick", with_env=True):
    n = draw(st.one_of(st.integers(5, 12), st.integers(2, 12)))
    # markov_reset drops events older than the first timestep (documented: "past events will not be
    # processed"), so with it no event is placed before the first grid point.
    markov = draw(st.booleans())
    gap = st.one_of(st.integers(2, 90), st.integers(91, 4000))
    gaps = draw(st.lists(gap, min_size=n - 1, max_size=n - 1))
    g0 = draw(st.integers(0, 1500))
    grid = [g0]
    for x in gaps:
        grid.append(grid[-1] + x)
    events = []
    for i in range(n):
        k = draw(st.sampled_from([1, 0, 1, 2, 1]))
        room = gaps[i - 1] - 1 if i > 0 else (0 if markov else 3000)
        for _ in range(k):
            back = draw(st.one_of(st.just(0), st.just(0), st.integers(min(1, room), room)))
            kind = draw(st.sampled_from(["etf", "etf", "etf", "idx"]))
            events.append([grid[i] - back, kind])
    for fwd in draw(st.lists(st.integers(1, 500), max_size=2)):
        events.append([grid[-1] + fwd, "etf"])

    def bound(lo_code, hi_code):
        code = draw(st.integers(lo_code, hi_code))
        if code == -1:
            return grid[0] - draw(st.integers(1, 5000))
        if code == 2 * n - 1:
            return grid[-1] + draw(st.integers(1, 5000))
        if code % 2 == 0:
            return grid[code // 2]
        return grid[code // 2] + draw(st.integers(1, gaps[code // 2] - 1))

    nfolds = draw(st.sampled_from([2, 1, 3, 2, 1, 3, 2, 0]))
    folds = []
    for _ in range(nfolds):
        if draw(st.sampled_from([True, True, False])):
            # wide window: starts in the first third of the grid, ends in the last third
            a, b = bound(-1, (2 * n) // 3), bound((4 * n) // 3, 2 * n - 1)
        else:
            a, b = bound(-1, 2 * n - 1), bound(-1, 2 * n - 1)
        folds.append([min(a, b), max(a, b)])
    fold = draw(st.integers(0, nfolds - 1)) if nfolds else 0
    # The grid is GIVEN in a generated order (the library sorts and de-duplicates it): chronological,
    # newest-first, shuffled, with repeated entries, partly through add_timesteps, as list or DatetimeIndex.
    how = draw(st.sampled_from(["reversed", "sorted", "shuffled", "rotated", "shuffled"]))
    given = list(range(n))
    if how == "reversed":
        given.reverse()
    elif how == "shuffled":
        given = list(draw(st.permutations(given)))
    elif how == "rotated":
        r = draw(st.integers(1, n - 1))
        given = given[r:] + given[:r]
    for d in draw(st.lists(st.integers(0, n - 1), max_size=2)):
        given.insert(draw(st.integers(0, len(given))), d)
    later = draw(st.sampled_from([0, 0, 1, 2]))
    if later:
        later = draw(st.integers(1, len(given) - 1))
    tskind = draw(st.sampled_from(["list", "list", "pd"]))
    case = {"g0": g0, "gaps": gaps, "events": events, "folds": folds, "fold": fold,
            "given": given, "later": later, "tskind": tskind, "markov": markov}
    slots, _ = model_slots(grid, events)
    lo, hi = fold_window(case)
    S = len(fold_steps(slots, lo, hi))
    modes = ["ctor", "reset", "none", "ctor", "reset", "reset+ctor"] if with_env else ["len", "none", "len", "len"]
    mode = draw(st.sampled_from(modes))
    case["mode"] = mode
    if mode != "none":
        if S >= 3:
            # several valid starts (n <= S - 2) most of the time, then the boundary lengths
            several = st.integers(1, S - 2)
            longer = st.integers(2, S - 2) if S >= 4 else several
            choices = [longer, several, longer, several, longer, st.just(S - 1), st.just(S), st.just(S + 1), st.integers(1, S + 1)]
        else:
            choices = [st.integers(1, S + 1)]
        case["n"] = draw(st.one_of(*choices))
        if mode == "reset+ctor":
            case["ctor_n"] = draw(st.integers(1, 13))
    case["span"] = draw(st.one_of(st.none(), st.none(), st.integers(1, 30)))
    case["seed0"] = draw(st.integers(0, 2 ** 31 - 1))
    if not with_env:
        return case
    # further resets on the SAME environment: a default reset (the constructor's length, or the whole fold,
    # must apply again whatever an earlier reset asked for) or a reset with another explicit length
    follow = []
    for _ in range(draw(st.sampled_from([2, 1, 3, 2, 1, 0]))):
        fi = draw(st.sampled_from([fold, fold, draw(st.integers(0, nfolds - 1))])) if nfolds else 0
        item = {"fold": fi}
        if draw(st.sampled_from(["default", "length", "default"])) == "length":
            flo, fhi = tuple(folds[fi]) if nfolds else (None, None)
            Sf = len(fold_steps(slots, flo, fhi))
            inside = st.integers(1, Sf - 1) if Sf >= 2 else st.integers(1, Sf + 1)
            item["n"] = draw(st.one_of(inside, inside, st.integers(1, Sf + 1)))
        follow.append(item)
    case["follow"] = follow
    return case


# ------------------------------------------------------------------------------------------ shared

def build_transmitter(case, grid, markov=False):
    folds = None
    if case["folds"]:
        folds = {FOLD_NAMES[i]: [T(a), T(b)] for i, (a, b) in enumerate(case["folds"])}
    given = case.get("given") or list(range(len(grid)))
    later = case.get("later", 0)
    first = [T(grid[i]) for i in given[:len(given) - later]]
    rest = [T(grid[i]) for i in given[len(given) - later:]]
    tr = Transmitter(pd.DatetimeIndex(first) if case.get("tskind") == "pd" else first, folds=folds, markov_reset=markov)
    if rest:
        tr.add_timesteps(rest)
    etf, idx = ETF("SPY"), Index("NDX")
    evs = []
    for k, (minute, kind) in enumerate(case["events"]):
        c = etf if kind == "etf" else idx
        evs.append(EventNBBO(T(minute), c, 10.0 + k, 10.5 + k))
    tr.add_events(evs)
    return tr, etf


def describe(case, grid, slots, lo, hi):
    given = case.get("given") or list(range(len(grid)))
    extra = ""
    if given != list(range(len(grid))):
        extra = " given-order=%s%s" % (given, " (last %d via add_timesteps)" % case["later"] if case.get("later") else "")
    return "grid=%s%s%s slots=%s fold=[%s,%s]" % (grid, extra, " markov_reset" if case.get("markov") else "", slots, lo, hi)


def classify(res, case, grid, slots, lo, hi, steps, n):
    """Coverage classes + the non-trivial rule. n = decisions of the episode (None when refused)."""
    res.tag("mode-" + case["mode"])
    given = case.get("given") or list(range(len(grid)))
    if given != sorted(given):
        res.tag("grid-given-unsorted")
        if given[0] != 0:
            res.tag("first-given-not-earliest")
            if case.get("markov"):
                res.tag("first-given-not-earliest+markov")
    if len(set(given)) != len(given):
        res.tag("grid-duplicates")
    if case.get("later"):
        res.tag("timesteps-added-later")
    if case.get("tskind") == "pd":
        res.tag("grid-DatetimeIndex")
    res.tag("markov" if case.get("markov") else "replay")
    if case["span"] is not None:
        res.tag("sampling-span")
    nf = len(case["folds"])
    res.tag("folds-%d" % nf)
    overlapping = False
    for i in range(nf):
        for j in range(i + 1, nf):
            a, b = case["folds"][i], case["folds"][j]
            if a[0] <= b[1] and b[0] <= a[1]:
                overlapping = True
    if overlapping:
        res.tag("overlapping-folds")
    cuts = any(not in_window(s, lo, hi) for s in slots)
    if cuts:
        res.tag("fold-cuts-grid")
    if lo is not None and (lo not in grid or hi not in grid):
        res.tag("bound-off-grid")
    hole = any(in_window(g, lo, hi) and g not in slots for g in grid)
    if hole:
        res.tag("empty-gridpoint-in-fold")
    if any(m != slot_of(grid, m) and slot_of(grid, m) is not None for m, _ in case["events"]):
        res.tag("off-grid-event")
    if any(slot_of(grid, m) is None for m, _ in case["events"]):
        res.tag("event-after-last-timestep")
    S = len(steps)
    if S == 0:
        res.tag("empty-fold")
    if case["mode"] != "none":
        want = case["n"]
        if want == S:
            res.tag("n==size(refusal)")
        elif want == S + 1:
            res.tag("n==size+1(refusal)")
        elif want == S - 1:
            res.tag("n==size-1(single-start)")
        else:
            res.tag("n<size-1")
    res.nontrivial = bool(cuts and hole and n is not None and n >= 2)


# ------------------------------------------------------------------------------------------ part 1: TradingEnv

def env_now_slot(env, grid):
    m = minutes_of(env.now())
    return None if m is None else slot_of(grid, m), m


def run_env_episode(env, res, grid, expected, lo, hi, label):
    """`expected` = model timesteps of the episode (first already matched by the caller).
    Steps the environment with zero weights and checks the visit sequence and `done`."""
    n = len(expected) - 1
    if n == 0:
        try:
            env.step(np.zeros(1))
        except Exception:
            return
        res.fail("%s: episode of a single timestep %s accepted a decision and moved to %s" % (label, expected[0], env.now()))
        return
    for k in range(1, n + 1):
        _, _, done, _ = env.step(np.zeros(1))
        slot, minute = env_now_slot(env, grid)
        if slot is None or not in_window(slot, lo, hi):
            res.fail("%s: decision %d moved to minute %s (slot %s) outside the fold window [%s, %s]" % (label, k, minute, slot, lo, hi))
            return
        if slot != expected[k]:
            res.fail("%s: decision %d moved to timestep %s, the next event-bearing timestep of the fold is %s" % (label, k, slot, expected[k]))
            return
        if done and k < n:
            res.fail("%s: episode ended after %d decisions, %d expected (visited %s)" % (label, k, n, expected[:k + 1]))
            return
        if not done and k == n:
            res.fail("%s: episode not done after %d decisions (at timestep %s)" % (label, n, slot))
            return


def run_episodes(case):
    res = Result()
    grid = model_grid(case)
    slots, _ = model_slots(grid, case["events"])
    lo, hi = fold_window(case)
    steps = fold_steps(slots, lo, hi)
    S = len(steps)
    mode = case["mode"]
    span = case["span"]
    seed0 = case["seed0"]
    ctx = describe(case, grid, slots, lo, hi)
    ctor_n = case["n"] if mode == "ctor" else case["ctor_n"] if mode == "reset+ctor" else None

    tr, etf = build_transmitter(case, grid, markov=bool(case.get("markov")))
    kwargs = dict(action_space=[etf], state=IState(), reward=RewardSimpleReturn(), transmitter=tr,
                  broker_fees=BrokerFees(), latency=0, sampling_span=span)
    if ctor_n is not None:
        kwargs["episode_length"] = ctor_n
    env = TradingEnv(**kwargs)
    history = []   # what was asked of this environment so far, for the messages

    def fold_of(fi):
        if not case["folds"]:
            return "training-set", None, None, slots
        flo, fhi = case["folds"][fi]
        return FOLD_NAMES[fi], flo, fhi, fold_steps(slots, flo, fhi)

    def single(fi, explicit_n, seed, step=True):
        """One reset on the shared environment + the whole oracle for the episode it starts.
        explicit_n decisions are asked through reset(episode_length=explicit_n + 1); None = default reset,
        which must use the constructor's length or, without one, the whole fold.
        Returns (ok, start timestep or None)."""
        name, flo, fhi, fsteps = fold_of(fi)
        n_eff = explicit_n if explicit_n is not None else ctor_n
        how = "reset(%r, episode_length=%d)" % (name, explicit_n + 1) if explicit_n is not None else "reset(%r)" % name
        if explicit_n is None:
            how += " [constructor: %s decisions]" % ctor_n if ctor_n is not None else " [no configured length]"
        label = "%s on fold [%s,%s]%s%s (%s)" % (how, flo, fhi, ", span %s" % span if span else "",
                                               " after " + " -> ".join(history[-3:]) if history else "", ctx)
        history.append(how.split(" [")[0])
        if len(history) > 3:
            del history[0]
        Sf = len(fsteps)
        if n_eff is None:
            valid = fsteps[:1]
            n_run = Sf - 1
        else:
            valid = fsteps[:Sf - n_eff] if n_eff <= Sf - 1 else []
            n_run = n_eff
        np.random.seed(seed)
        try:
            if explicit_n is not None:
                env.reset(name, episode_length=explicit_n + 1)
            else:
                env.reset(name)
        except Exception as exc:
            if valid:
                res.fail("%s: refused (%s: %s) although %d starts fit" % (label, type(exc).__name__, str(exc)[:80], len(valid)))
                return False, None
            return True, None
        if not valid:
            if n_eff is None:
                res.fail("%s: reset into a fold without event-bearing timesteps returned normally, now=%s" % (label, env.now()))
            else:
                res.fail("%s: no start leaves room for %d decisions in %d timesteps, yet reset returned (now=%s)" % (label, n_eff, Sf, env.now()))
            return False, None
        slot, minute = env_now_slot(env, grid)
        if slot not in valid:
            res.fail("%s: seed %d starts at minute %s (slot %s); starts where the episode fits: %s" % (label, seed, minute, slot, valid))
            return False, None
        if step is True or step(slot):
            i0 = fsteps.index(slot)
            before = len(res.violations)
            run_env_episode(env, res, grid, fsteps[i0:i0 + n_run + 1], flo, fhi, label + " seed %d" % seed)
            if len(res.violations) > before:
                return False, slot
        return True, slot

    def followups():
        last_explicit = mode in ("reset", "reset+ctor")
        for j, item in enumerate(case.get("follow", [])):
            explicit = item.get("n")
            res.tag("followup-length" if explicit is not None else "followup-default")
            if explicit is None and last_explicit:
                res.tag("reset(L)-then-default")
                res.tag("reset(L)-then-default/ctor" if ctor_n is not None else "reset(L)-then-default/whole-fold")
            if item["fold"] != case["fold"]:
                res.tag("followup-other-fold")
            ok, _ = single(item["fold"], explicit, seed0 + 1000 + j)
            if not ok:
                return
            last_explicit = explicit is not None

    if mode == "none":
        classify(res, case, grid, slots, lo, hi, steps, S - 1 if S else None)
        # every fold of the dictionary in turn on the same environment, the selected one last
        order = [i for i in range(len(case["folds"])) if i != case["fold"]] + [case["fold"]] if case["folds"] else [0]
        for rep, fi in enumerate(order):
            ok, _ = single(fi, None, seed0 + rep)
            if not ok:
                return res
        followups()
        return res

    n = case["n"]
    explicit = n if mode in ("reset", "reset+ctor") else None
    valid = steps[:S - n] if n <= S - 1 else []
    classify(res, case, grid, slots, lo, hi, steps, n if valid else None)
    if not valid:
        for i in range(3):
            ok, _ = single(case["fold"], explicit, seed0 + i)
            if not ok:
                return res
        followups()
        return res

    seen = set()
    stepped = set()

    def draw(seed, i):
        def want_steps(slot):
            if slot in stepped and i >= 3:
                return False
            stepped.add(slot)
            return True
        ok, slot = single(case["fold"], explicit, seed, step=want_steps)
        if ok:
            seen.add(slot)
        return ok

    for i in range(N_SEEDS):
        if not draw(seed0 + i, i):
            return res
    if span is None and len(seen) < len(valid):
        res.tag("extra-draws")
        for i in range(N_EXTRA):
            if len(seen) == len(valid):
                break
            if not draw(extra_seed(seed0, i), N_SEEDS + i):
                return res
        missing = [s for s in valid if s not in seen]
        if missing:
            res.fail("fold %s, %d decisions via %s (%s): starts %s never drawn in %d seeds (valid %s, drawn %s)" % (
                fold_of(case["fold"])[0], n, mode, ctx, missing, N_SEEDS + N_EXTRA, valid, sorted(seen)))
    if len(valid) >= 2:
        res.tag("several-starts")
    followups()
    return res


# ------------------------------------------------------------------------------------------ part 2: Transmitter alone

def run_transmitter(case):
    res = Result()
    grid = model_grid(case)
    slots, per = model_slots(grid, case["events"])
    lo, hi = fold_window(case)
    steps = fold_steps(slots, lo, hi)
    S = len(steps)
    mode = case["mode"]
    span = case["span"]
    seed0 = case["seed0"]
    fold_name = FOLD_NAMES[case["fold"]] if case["folds"] else "training-set"
    ctx = describe(case, grid, slots, lo, hi)
    tr, _ = build_transmitter(case, grid, markov=case["markov"])
    tr._create_partitions(0)

    def walk(expected, label):
        """Iterate _next() to exhaustion; compare the visit sequence with `expected` (a function of the
        first visited timestep, or a list) and the delivered events with the model."""
        visits, stopped = [], False
        for _ in range(S + 4):
            try:
                latent, nonlatent = tr._next()
            except StopIteration:
                stopped = True
                break
            visits.append((minutes_of(tr._now()), list(latent) + list(nonlatent)))
        seq = [m for m, _ in visits]
        if not stopped:
            res.fail("%s: iteration did not stop, visited %s" % (label, seq))
            return None
        if callable(expected):
            expected = expected(seq[0] if seq else None)
            if expected is None:
                return None
        if seq != expected:
            outside = [m for m in seq if m is None or not in_window(m, lo, hi)]
            res.fail("%s: visited %s, expected %s%s" % (label, seq, expected, " (outside the window: %s)" % outside if outside else ""))
            return None
        for k, (m, got) in enumerate(visits):
            times = [minutes_of(e.time) for e in got]
            if k == 0 and not case["markov"]:
                want = sum(c for s, c in per.items() if s <= m)
                if len(got) != want or any(t is None or t > m for t in times):
                    res.fail("%s: first timestep %s replays events of minutes %s, %d events occur up to it" % (label, m, times, want))
                    return None
            elif len(got) != per[m] or any(t is None or slot_of(grid, t) != m for t in times):
                res.fail("%s: timestep %s delivered events of minutes %s, the model has %d events for it" % (label, m, times, per[m]))
                return None
        return seq

    if mode == "none":
        classify(res, case, grid, slots, lo, hi, steps, S - 1 if S else None)
        np.random.seed(seed0)
        tr._reset(fold_name, None, span)
        walk(steps, "fold %s without length (%s)" % (fold_name, ctx))
        return res

    n = case["n"]
    L = n + 1
    valid = steps[:S - n] if n <= S - 1 else []
    classify(res, case, grid, slots, lo, hi, steps, n if valid else None)
    label = "fold %s, episode_length=%d states%s (%s)" % (fold_name, L, ", span %s" % span if span else "", ctx)
    if not valid:
        for i in range(3):
            np.random.seed(seed0 + i)
            try:
                tr._reset(fold_name, L, span)
            except Exception:
                continue
            res.fail("%s: no start leaves room for %d states in %d timesteps, yet _reset returned" % (label, L, S))
            break
        return res

    seen = set()

    def draw(seed):
        np.random.seed(seed)
        try:
            tr._reset(fold_name, L, span)
        except Exception as exc:
            res.fail("%s: _reset refused (%s: %s) although %d starts fit" % (label, type(exc).__name__, str(exc)[:80], len(valid)))
            return False

        def expected(start):
            if start not in valid:
                res.fail("%s: seed %d starts at %s; starts where the episode fits: %s" % (label, seed, start, valid))
                return None
            i0 = steps.index(start)
            return steps[i0:i0 + L]

        seq = walk(expected, label + " seed %d" % seed)
        if seq is None:
            return False
        seen.add(seq[0])
        return True

    for i in range(N_SEEDS):
        if not draw(seed0 + i):
            return res
    if span is None and len(seen) < len(valid):
        res.tag("extra-draws")
        for i in range(N_EXTRA):
            if len(seen) == len(valid):
                break
            if not draw(extra_seed(seed0, i)):
                return res
        missing = [s for s in valid if s not in seen]
        if missing:
            res.fail("%s: starts %s never drawn in %d seeds (valid %s, drawn %s)" % (label, missing, N_SEEDS + N_EXTRA, valid, sorted(seen)))
    if len(valid) >= 2:
        res.tag("several-starts")
    return res


# ------------------------------------------------------------------------------------------ part 3: walk-forward

def wf_grid(n, kind):
    """Deterministic irregular grid of n timesteps (gaps 1..7 days from a fixed linear congruence)."""
    ts, t, x = [], datetime(2015, 1, 5), 12345 + n
    for _ in range(n):
        ts.append(t)
        x = (x * 1103515245 + 12345) % (2 ** 31)
        t = t + timedelta(days=1 + (x >> 16) % 7)
    return pd.DatetimeIndex(ts) if kind == "pd" else ts


def enumerate_walk_forward(tier):
    return [[n, train, sliding, kind]
            for n in range(2, 61) for train in range(1, n) for sliding in (True, False) for kind in ("dt", "pd")]


def as_ints(xs):
    out = []
    for x in xs:
        if isinstance(x, (bool, np.bool_)) or int(x) != x:
            raise ValueError("index %r is not an integer" % (x,))
        out.append(int(x))
    return out


def run_walk_forward(case):
    n, train, sliding, kind = case
    res = Result()
    res.tag("sliding" if sliding else "expanding", "grid-" + kind)
    ts = wf_grid(n, kind)
    plain = [datetime(t.year, t.month, t.day) for t in ts]
    most = 0
    for test in range(1, n - train + 1):
        tr = Transmitter(ts)
        label = "walk_forward(train=%d, test=%d, sliding=%s) over %d timesteps" % (train, test, sliding, n)
        f = tr.walk_forward(train_size=train, test_size=test, sliding_window=sliding)
        if not isinstance(f, Folds):
            res.fail("%s returned %s" % (label, type(f).__name__))
            continue
        try:
            a, b, c, d = as_ints(f.train_start), as_ints(f.train_end), as_ints(f.test_start), as_ints(f.test_end)
        except ValueError as exc:
            res.fail("%s: %s" % (label, exc))
            continue
        k = len(a)
        most = max(most, k)
        if not (len(b) == len(c) == len(d) == k):
            res.fail("%s: ragged folds %d/%d/%d/%d" % (label, k, len(b), len(c), len(d)))
            continue
        if k == 0:
            res.fail("%s: no fold although train + test = %d <= %d" % (label, train + test, n))
            continue
        shown = "train=%s..%s test=%s..%s" % (a, b, c, d)
        for i in range(k):
            if not (0 <= a[i] <= b[i] < c[i] <= d[i] <= n - 1):
                res.fail("%s: fold %d indices outside the grid or disordered (%s)" % (label, i, shown))
                break
            if c[i] != b[i] + 1:
                res.fail("%s: fold %d test window starts at %d, training window ends at %d (%s)" % (label, i, c[i], b[i], shown))
                break
            if d[i] - c[i] + 1 != test:
                res.fail("%s: fold %d test window has %d timesteps (%s)" % (label, i, d[i] - c[i] + 1, shown))
                break
            if sliding and b[i] - a[i] + 1 != train:
                res.fail("%s: fold %d training window has %d timesteps (%s)" % (label, i, b[i] - a[i] + 1, shown))
                break
            if not sliding and a[i] != 0:
                res.fail("%s: expanding fold %d starts at %d, not at the first timestep (%s)" % (label, i, a[i], shown))
                break
            if not sliding and i == 0 and b[i] - a[i] + 1 != train:
                res.fail("%s: first expanding training window has %d timesteps (%s)" % (label, b[i] - a[i] + 1, shown))
                break
            if i > 0:
                if not c[i] > d[i - 1]:
                    res.fail("%s: test windows %d and %d overlap or are out of order (%s)" % (label, i - 1, i, shown))
                    break
                if c[i] != d[i - 1] + 1:
                    res.fail("%s: test window %d does not start right after window %d (stride != test_size) (%s)" % (label, i, i - 1, shown))
                    break
                if not sliding and not (b[i] - a[i]) > (b[i - 1] - a[i - 1]):
                    res.fail("%s: expanding training window %d does not grow (%s)" % (label, i, shown))
                    break
        else:
            g = f.as_time()
            for nm, idx, got in (("train_start", a, g.train_start), ("train_end", b, g.train_end),
                                 ("test_start", c, g.test_start), ("test_end", d, g.test_end)):
                got = list(got)
                conv = []
                for x in got:
                    x = pd.Timestamp(x)
                    conv.append(datetime(x.year, x.month, x.day, x.hour, x.minute, x.second, x.microsecond))
                if conv != [plain[i] for i in idx]:
                    res.fail("%s: as_time().%s = %s, grid gives %s" % (label, nm, conv[:4], [plain[i] for i in idx][:4]))
                    break
    if most >= 2:
        res.tag("several-folds")
    if most >= 5:
        res.tag("five-or-more-folds")
    res.nontrivial = most >= 2
    return res


PARTS = [
    Part("episodes", strategy=lambda tier: episode_cases(tier, True), run=run_episodes, quick=2400, thorough=40000),
    Part("transmitter", strategy=lambda tier: episode_cases(tier, False), run=run_transmitter, quick=4000, thorough=80000),
    Part("walk_forward", enumerate=enumerate_walk_forward, run=run_walk_forward),
]


# Sensitivity record (scratch copy of /repo/tradingenv, one change at a time,
# `VERIF_PKG_ROOT=/tmp/c15mut ./check C15 --tier quick --no-evidence`; every line: exit 1 + VIOLATION).
#   m1  transmitter._reset: steps[: -episode_length] (one start lost)               caught by episodes, transmitter
#   m2  env.__init__: the `+ 1` on episode_length removed                           caught by episodes
#   m3a fold filter `start_date < steps`                                            caught by episodes, transmitter
#   m3b fold filter `steps < end_date`                                              caught by episodes, transmitter
#   m4  walk_forward stride 1 instead of test_size                                  caught by walk_forward (overlap)
#   m5a end_date_idx = start + episode_length (one too many)                        caught by episodes, transmitter
#   m5b end_date_idx = start + episode_length - 2 (one too few)                     caught by episodes, transmitter
#   m6  np.random.choice(range(len(start_dates) - 1)) (last start never drawn)      caught by episodes, transmitter
#   m7  (own) bisect_right: event on a grid point goes to the next timestep         caught by episodes, transmitter
#   m8  (own) walk_forward train_end = train_start + train_size (overlaps test)     caught by walk_forward
#   m9  (own) events exactly on the last timestep dropped (`<` in _create_partitions) caught by episodes, transmitter
#   m10 (own) env.reset: constructor length wins over reset(episode_length=)        caught by episodes (reset+ctor)
#   m11 (own) history replay excludes the first timestep's own events               caught by episodes, transmitter
#   m12 (own) walk_forward test_end one short                                       caught by walk_forward
#   m13 (own) expanding window does not start at the first timestep                 caught by walk_forward
#   m14 (seeded C15_C) reset(episode_length=k) overwrites the environment's configured length    MISSED by the first
#       version (no default reset ever followed a reset with a length on the same environment); caught since the
#       follow-up resets were added (classes followup-default / followup-length / reset(L)-then-default).
#   seeded C15_A, C15_B, C15_D: caught (walk_forward / episodes / episodes).
#   seeded C15_E (markov lower bound read before the grid is sorted): MISSED while grids were always given sorted;
#       caught since the grid is given in a generated order and markov_reset is generated in both parts.
#   seeded C15_F: caught (episodes).
# Out-of-quantifier observation (not asserted, not generated): episode_length=1 state (zero decisions) given to
# TradingEnv.reset / Transmitter._reset is refused with ValueError because steps[: -(1 - 1)] == steps[:0] is empty.
