"""C02 No look-ahead: outputs up to time t never depend on data stamped after t."""
import bisect

import numpy as np
from hypothesis import strategies as st

from vlib.runner import Part, Result
from vlib import envlab as E

ID = "C02"
US = E.US
RULE = ("events: a generated bar-shaped episode (grid 3-10 points crossing midnights, 1-3 contracts, extra quotes around the latency boundary, custom "
        "Ping events consumed by a history-carrying recording state, rate quotes, latency, delay, fees, reward) and a cut step c (t = its timestep). "
        "A second stream is derived by a generated perturbation: every event stamped > t (mode P) or > t+latency (mode P') gets new values "
        "(prices x factor, new payloads, new rates), non-bar events after the bound may be dropped and new ones inserted. Both runs receive the "
        "same actions. Oracle (metamorphic): the bitwise traces - reset observation, then per step observation, reward, done, executed trades with "
        "prices, holdings, NLV, track-record entry, recorder log - are identical for every step landing at or before t; under P' the execution of "
        "the step after t (time, allocation, trade quantities and prices, pre-trade NLV) is identical too. tabular: see part xy. "
        "Non-trivial = at least one perturbed event in the step right after t and a non-zero trade at or before t.")
ASSUMPTIONS = [
    "perturbations keep the stream bar-shaped (bar quotes are re-priced, never removed) and keep 0 < bid <= ask",
    "anything after the cut is ignored, including exceptions",
]


@st.composite
def cases(draw, tier="quick"):
    c = draw(E.episode_cases(tier, max_points=10, boundary_extras=True))
    nsteps = len(c["gaps"]) - 1
    cut = draw(st.integers(0, nsteps - 1))          # 0 = the reset timestep
    mode = draw(st.sampled_from(["P", "P", "Pprime"]))
    factors = draw(st.lists(st.floats(0.5, 2.0), min_size=1, max_size=8))
    drops = draw(st.lists(st.booleans(), min_size=1, max_size=6))
    n = len(c["contracts"])
    added = [[draw(st.integers(1, 3)), draw(st.sampled_from([1, US, 7 * US, 3600 * US])), draw(st.sampled_from(["Q", "P"])),
              draw(st.integers(0, n - 1)), draw(st.floats(0.5, 2.0))] for _ in range(draw(st.integers(0, 4)))]
    # observation features: the library's windowed State fed by tabular observation events
    if draw(st.sampled_from([False, True])):
        nfeat = draw(st.integers(1, 3))
        window = draw(st.integers(1, 4))
        stride = draw(st.sampled_from([None, None, 1, 2]))
        if stride is not None and stride > window:
            stride = None
        c["state"] = ["window", nfeat, window, stride]
        npts = len(c["gaps"])
        obs = [[0, 0, [draw(st.floats(-3, 3)) for _ in range(nfeat)]]]     # a first row no later than the first timestep
        for _ in range(draw(st.integers(1, 10))):
            gi = draw(st.integers(0, npts - 1))
            off = draw(st.sampled_from([0, 0, 1, -1, c["latency_us"], c["latency_us"] + 1])) if gi > 0 else 0
            obs.append([gi, off, [draw(st.floats(-3, 3)) for _ in range(nfeat)]])
        c["obs"] = obs
    elif draw(st.sampled_from([False, False, True])):
        # a state given as a list of Feature objects: a rolling feature (saved or not) and one without event callbacks
        c["state"] = ["features", draw(st.booleans())]
    elif draw(st.sampled_from([False, False, True])):
        # the library's own features (held weights, mid prices), transformers left unfitted
        c["state"] = ["library", -50.0, 50.0, False]
    # folds / warm-up / markov reset
    if draw(st.sampled_from([False, False, True])):
        g = E.grid_of(c)
        a = draw(st.integers(0, max(0, len(g) - 3)))
        c["fold"] = [g[a] - draw(st.sampled_from([0, 1])), g[-1] + draw(st.sampled_from([0, 1]))]
        c["markov"] = draw(st.sampled_from([False, False, True])) and c.get("state", ["rec"])[0] == "rec"
        c["warmup_us"] = draw(st.sampled_from([None, None, 3600 * US, 10 * 86400 * US]))
        if c.get("state", ["rec"])[0] in ("window", "library"):
            c["warmup_us"] = None     # the windowed State needs its first row replayed (it cannot parse an empty queue); prices need a quote
        nsteps = len(g) - 1 - a
        cut = min(cut, max(0, nsteps - 1))
    # custom events may be loaded from a table (add_custom_events), possibly with completely empty rows
    if c["pings"] and draw(st.sampled_from([False, True])):
        c["pings_via_frame"] = True
        c["ping_nan_rows"] = draw(st.lists(st.integers(0, len(c["pings"]) - 1), max_size=2, unique=True))
        c["ping_nan_shift_us"] = draw(st.sampled_from([0, 1, -1]))
    c["cut"] = cut
    c["perturb"] = {"mode": mode, "factors": factors, "drops": drops, "added": added}
    return c


@st.composite
def ruin_cases(draw, tier="quick"):
    """An episode that ENDS at the cut: a leveraged account is ruined by the market events of step j while data is left
    and quotes sit inside the latency window after t (the terminal outputs must not depend on them)."""
    from props import c09
    r = draw(c09.cases(tier))
    r["phase"] = "nonlatent"
    r["as_contracts"] = False
    gap = r["gap"]
    r["latency_us"] = draw(st.sampled_from([US, gap // 2, gap - 1]))
    r["tail"] = max(r["tail"], 1)
    c = c09.to_env_case(r)
    j = r["ruin_step"]
    n = len(c["contracts"])
    c["extras"] = [[j, draw(st.sampled_from([1, r["latency_us"] // 2 + 1, r["latency_us"]])), draw(st.integers(0, n - 1)),
                    draw(st.floats(0.5, 2.0)), 0.0] for _ in range(draw(st.integers(1, 3)))]
    c["pings"] = [[j, draw(st.sampled_from([1, r["latency_us"]])), draw(st.floats(-5, 5))]]
    c["cut"] = j
    c["perturb"] = {"mode": "P", "factors": draw(st.lists(st.floats(0.5, 2.0), min_size=1, max_size=4)),
                    "drops": draw(st.lists(st.booleans(), min_size=1, max_size=3)), "added": []}
    c["ruin_at_cut"] = True
    return c


def perturbed_stream(b, case):
    """Returns (stream', bound_us, number of events changed in the step right after the cut)."""
    tm = E.Timing(b)
    cut = case["cut"]
    t = b.grid[tm.steps[cut]]
    mode = case["perturb"]["mode"]
    bound = t + (b.latency_us if mode == "Pprime" else 0)
    factors = case["perturb"]["factors"]
    drops = case["perturb"]["drops"]
    bars = {(g, ci) for g in b.grid for ci in range(b.n)}
    out = []
    k = 0
    changed_next = 0
    nxt = b.grid[tm.steps[cut + 1]] if cut + 1 < len(tm.steps) else None
    seen_bar = set()
    for (ts, kind, payload) in b.stream:
        if ts <= bound:
            out.append((ts, kind, payload))
            continue
        f = factors[k % len(factors)]
        k += 1
        is_bar = kind == "Q" and (ts, payload[0]) in bars and (ts, payload[0]) not in seen_bar
        if is_bar:
            seen_bar.add((ts, payload[0]))
        if not is_bar and kind != "RATE" and drops[k % len(drops)]:
            if nxt is not None and ts <= nxt:
                changed_next += 1
            continue
        if kind == "Q":
            ci, bid, ask = payload
            out.append((ts, kind, (ci, bid * f, ask * f)))
        elif kind == "RATE":
            out.append((ts, kind, [0.0, 0.03, 0.1, -0.01][k % 4]))
        elif kind == "P":
            out.append((ts, kind, (payload[0], payload[1] * f + 1.0)))
        elif kind == "OBS":
            out.append((ts, kind, [v * f + 0.5 for v in payload]))
        else:
            out.append((ts, kind, payload))
        if nxt is not None and ts <= nxt:
            changed_next += 1
    for (after_steps, off, kind, ci, f) in case["perturb"]["added"]:
        ts = bound + off
        if kind == "Q":
            mid = case["contracts"][ci]["p0"] * f
            out.append((ts, "Q", (ci, mid * 0.999, mid * 1.001)))
        else:
            out.append((ts, "P", (1000 + ci, f)))
        if nxt is not None and ts <= nxt:
            changed_next += 1
    return out, bound, changed_next, tm


def run(case):
    res = Result()
    b1 = E.build(case)
    stream2, bound, changed_next, tm = perturbed_stream(b1, case)
    b2 = E.build(case, stream_override=stream2)
    kind = case.get("action_type", "array64")
    t1, end1 = E.run_episode(b1.env, case["actions"], fold=E.fold_name(case), action_kind=kind)
    t2, end2 = E.run_episode(b2.env, case["actions"], fold=E.fold_name(case), action_kind=kind)
    cut = case["cut"]
    for tr_ in (t1, t2):
        for idx, snap in enumerate(tr_):
            if isinstance(snap, dict) and snap.get("mutated_after_return"):
                res.fail("the observation returned by call %d changed after it was returned, when later events arrived: %s" % (idx, str(snap["obs"])[:200]))
                break
        if res.violations:
            break
    upto = cut + 1            # trace[0] is the reset (timestep 0), trace[j] the step landing on steps[j]
    traded_before = False
    for j in range(min(upto, len(t1), len(t2))):
        x, y = t1[j], t2[j]
        if x != y:
            keys = [k for k in x if x.get(k) != y.get(k)] if isinstance(x, dict) and isinstance(y, dict) else ["?"]
            res.fail("outputs of call %d (landing at or before the cut t) differ between two streams that agree up to t in %s: %s vs %s" % (
                j, keys, {k: x.get(k) for k in keys[:1]}, {k: y.get(k) for k in keys[:1]}))
            break
        if x.get("reb") and x["reb"]["trades"]:
            traded_before = True
    if not res.violations and (len(t1) < upto) != (len(t2) < upto):
        res.fail("one run ended before the cut, the other did not")
    if not res.violations and case["perturb"]["mode"] == "Pprime" and len(t1) > upto and len(t2) > upto:
        x, y = t1[upto], t2[upto]
        if ("exception" in x) != ("exception" in y):
            pass   # later events may legitimately change how the step after t ends
        elif x.get("reb") is not None and y.get("reb") is not None:
            keep = ("time", "allocation", "trades", "pre_nlv", "pre_w", "interest")
            if {k: x["reb"][k] for k in keep} != {k: y["reb"][k] for k in keep}:
                res.fail("the trades executed in the step after t depend on events stamped after t+latency: %s vs %s" % (
                    {k: x["reb"][k] for k in ("time", "trades")}, {k: y["reb"][k] for k in ("time", "trades")}))
        elif (x.get("reb") is None) != (y.get("reb") is None):
            res.fail("whether the decision after t was executed depends on events stamped after t+latency")
    res.nontrivial = changed_next > 0 and traded_before
    res.tag("mode-" + case["perturb"]["mode"], "cut=%s" % ("reset" if cut == 0 else "step"))
    if changed_next:
        res.tag("perturbed-next-step")
    if traded_before:
        res.tag("traded-before-cut")
    if case["latency_us"] > 0:
        res.tag("latency>0")
    if case["delay"] > 0:
        res.tag("delay>0")
    if case.get("state", ["rec"])[0] == "window":
        res.tag("windowed-observation-state")
    if case.get("state", ["rec"])[0] == "library":
        res.tag("state-made-of-library-features")
    if case.get("state", ["rec"])[0] == "features":
        res.tag("state-given-as-features" + ("" if case["state"][1] else "-unsaved"))
    if case.get("fold"):
        res.tag("fold")
    if case.get("markov"):
        res.tag("markov")
    if case.get("warmup_us"):
        res.tag("warm-up")
    if case.get("pings_via_frame"):
        res.tag("custom-events-from-a-table")
        if case.get("ping_nan_rows"):
            res.tag("table-with-empty-rows")
    if case.get("ruin_at_cut"):
        res.tag("episode-ends-by-ruin-at-the-cut")
    return res


from vlib import c02xy
from vlib import xylab
import pandas as pd


@st.composite
def tail_cases(draw, tier="quick"):
    """Default fit horizon: no transformer_end, no end bound. The feature table then extends beyond the last price date;
    the rows after it are dated after every step of the episode."""
    c = draw(xylab.cases(tier))
    c["transformer_end"] = None
    c["end"] = None
    c["fold2"] = None
    c["tail_rows"] = draw(st.integers(1, 8))
    c["tail_seed"] = draw(st.integers(0, 2 ** 20))
    c["tail_scale"] = draw(st.sampled_from([3.0, 30.0, -20.0]))
    if c["transformer"] is None:
        c["transformer"] = draw(st.sampled_from(["z-score", "z-score", None]))
    return c


def run_tail(case):
    """Two feature tables that agree up to the last price date t and differ only in rows dated after t: every output of
    the whole episode (which ends at or before t) must be bit-identical."""
    res = Result()
    t = xylab.tables_from_case(case)
    X, Y = t["X"], t["Y"]
    last = Y.dropna(how="all").index[-1]
    step = pd.Timedelta(days=1)
    idx = [last + step * (k + 1) for k in range(case["tail_rows"])]
    nx = X.shape[1]

    def tail(mult):
        rows = [[mult * ((case["tail_seed"] % 7) + 1 + k + 0.5 * j) for j in range(nx)] for k in range(len(idx))]
        return pd.DataFrame(rows, index=pd.DatetimeIndex(idx), columns=X.columns)

    X1 = pd.concat([X[X.index <= last], tail(1.0)])
    X2 = pd.concat([X[X.index <= last], tail(case["tail_scale"])])
    outs = []
    for Xv in (X1, X2):
        env = xylab.build_env(case, {"X": Xv, "Y": Y, "rate": t["rate"]})
        np.random.seed(case["tail_seed"])
        obs = env.reset(case["fold"] if case["folds"] is not None else "training-set")
        seq = [obs.tobytes().hex()]
        done, k = False, 0
        while not done and k < 400:
            w = np.array([0.0 if np.isnan(env.exchange[c_].bid_price) else x for c_, x in
                          zip(env.action_space.contracts, case["weights"][k % len(case["weights"])])], dtype=float)
            obs, reward, done, info = env.step(w)
            k += 1
            seq.append((obs.tobytes().hex(), float(reward).hex() if reward == reward else "nan", bool(done),
                        float(env.broker.net_liquidation_value(raise_if_broke=False)).hex(), str(env.now())))
        outs.append((seq, env.X.loc[:last].values.tobytes().hex(), float(env._reward.scale).hex()))
    a, b = outs
    if a[2] != b[2]:
        res.fail("the reward scale depends on feature/price rows dated after the last step")
    if a[1] != b[1]:
        res.fail("the published feature table up to the last price date %s depends on feature rows dated after it "
                 "(no transformer_end given: the fit horizon must default to the end of the tradable data)" % last)
    elif a[0] != b[0]:
        k = next(i for i, (x, y) in enumerate(zip(a[0], b[0])) if x != y)
        res.fail("outputs of call %d differ between two feature tables that agree up to the last price date" % k)
    res.nontrivial = case["transformer"] is not None and len(a[0]) > 2
    res.tag("transformer=%s" % case["transformer"], "tail-rows-after-the-last-price-date")
    return res

PARTS = [
    Part("events", strategy=lambda tier: st.one_of(cases(tier), cases(tier), cases(tier), ruin_cases(tier)), run=run, quick=3000, thorough=150000),
    Part("xy", strategy=lambda tier: c02xy.cases(tier), run=c02xy.run_xy, quick=640, thorough=9600),
    Part("xy-tail", strategy=lambda tier: tail_cases(tier), run=run_tail, quick=300, thorough=6000),
]
RULE = RULE.replace("tabular: see part xy. ", "xy (tabular API): " + c02xy.RULE + " xy-tail: default fit horizon (no transformer_end, no end): "
                    "feature rows dated after the last price date are rewritten; the whole episode must be bit-identical. ")
ASSUMPTIONS = ASSUMPTIONS + list(c02xy.ASSUMPTIONS)
