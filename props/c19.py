"""C19 Futures calendars: expiry rules, cut-off before expiry, ordered chains.

Part `calendar` enumerates the whole (class, year, month) domain 1970..2099 and compares every
built-in future with calendar arithmetic done on datetime.date only. Part `chains` generates
chain spans (and shuffled explicit contract lists) and checks ordering, symbol uniqueness and
the discontinuation events.
"""
import calendar as _cal
from datetime import date, datetime, timedelta

from hypothesis import strategies as st

from vlib.runner import Part, Result
from tradingenv import contracts as C
from tradingenv.events import EventContractDiscontinued

ID = "C19"
CLASSES = ["ES", "NK", "VX", "ZN", "ZT", "ZF", "ZB", "ZQ"]
TREASURIES = {"ZN", "ZT", "ZF", "ZB", "ZQ"}
MONTH_CODES = "FGHJKMNQUVXZ"

RULE = ("calendar: exhaustive enumeration of every (class in ES,NK,VX,ZN,ZT,ZF,ZB,ZQ; year 1970..2099; month 1..12), "
        "each compared with datetime.date arithmetic (k-th Friday, third Friday of next month - 30 days, last weekday); "
        "every enumerated contract is distinct and counts as non-trivial. chains: Hypothesis draws class x start date x "
        "span (months, < 100 years) or a shuffled explicit contract list; non-trivial = chain with >= 2 contracts.")
ASSUMPTIONS = [
    "reference calendar computed with datetime.date only (no pandas, no tradingenv code)",
    "exchange holidays are out of scope: the statement gives weekday rules only",
    "chain spans shorter than 100 years (symbols carry a two-digit year)",
]


def kth_friday(year, month, k):
    first = date(year, month, 1)
    return first + timedelta(days=(4 - first.weekday()) % 7 + 7 * (k - 1))


def ref_expiry(cls, year, month):
    if cls == "ES":
        return kth_friday(year, month, 3)
    if cls == "NK":
        return kth_friday(year, month, 2)
    if cls == "VX":
        ny, nm = (year + 1, 1) if month == 12 else (year, month + 1)
        return kth_friday(ny, nm, 3) - timedelta(days=30)
    if cls in TREASURIES:
        d = date(year, month, _cal.monthrange(year, month)[1])
        while d.weekday() >= 5:
            d -= timedelta(days=1)
        return d
    raise ValueError(cls)


def as_datetime(x):
    # pandas.Timestamp is a datetime subclass; normalise for comparisons
    return datetime(x.year, x.month, x.day, x.hour, x.minute, x.second, x.microsecond)


def run_calendar(case):
    cls, year, month = case
    res = Result()
    res.nontrivial = True
    res.tag(cls)
    fut = getattr(C, cls)(year, month)
    exp = as_datetime(fut.expiry)
    ref = ref_expiry(cls, year, month)
    if (exp.hour, exp.minute, exp.second, exp.microsecond) != (0, 0, 0, 0):
        res.fail("%s(%d,%d).expiry %s carries a time of day" % (cls, year, month, exp))
    if exp.date() != ref:
        res.fail("%s(%d,%d).expiry=%s, specification gives %s" % (cls, year, month, exp.date(), ref))
    if cls == "VX":
        if exp.weekday() != 2:
            res.fail("VX(%d,%d) expires on weekday %d, not a Wednesday" % (year, month, exp.weekday()))
    elif cls in ("ES", "NK"):
        if exp.weekday() != 4:
            res.fail("%s(%d,%d) expires on weekday %d, not a Friday" % (cls, year, month, exp.weekday()))
    else:
        if exp.weekday() >= 5:
            res.fail("%s(%d,%d) expires on a weekend" % (cls, year, month))
    ltd = as_datetime(fut.last_trading_date)
    if not ltd < exp:
        res.fail("%s(%d,%d): last trading date %s is not strictly before expiry %s" % (cls, year, month, ltd, exp))
    want = "%s%s%02d" % (cls, MONTH_CODES[exp.month - 1], exp.year % 100)
    if fut.symbol != want:
        res.fail("%s(%d,%d).symbol=%r, expected %r" % (cls, year, month, fut.symbol, want))
    if (exp.year, exp.month) != (year, month):
        res.fail("%s(%d,%d) expires in %d-%02d, outside its contract month" % (cls, year, month, exp.year, exp.month))
    return res


def enumerate_calendar(tier):
    return [[c, y, m] for c in CLASSES for y in range(1970, 2100) for m in range(1, 13)]


# ------------------------------------------------------------------------------------------ chains

@st.composite
def chain_cases(draw, tier="quick"):
    cls = draw(st.sampled_from(CLASSES))
    mode = draw(st.sampled_from(["span", "span", "span", "list"]))
    if mode == "span":
        y = draw(st.integers(1970, 2098))
        m = draw(st.integers(1, 12))
        d = draw(st.integers(1, 28))
        big = 1188 if tier == "thorough" else 400
        span = draw(st.one_of(st.integers(0, 40), st.integers(0, 40), st.integers(41, big)))
        # end = start + span months, capped to 2099-12 and to < 100 years
        em = (y * 12 + (m - 1)) + span
        em = min(em, 2099 * 12 + 11, (y + 99) * 12 + (m - 1))
        ey, emo = divmod(em, 12)
        ed = draw(st.integers(1, 28))
        fmt = draw(st.sampled_from(["datetime", "str-month", "str-day"]))
        return {"cls": cls, "mode": "span", "start": [y, m, d], "end": [ey, emo + 1, ed], "fmt": fmt,
                "month": draw(st.sampled_from([0, 0, 1, 2]))}
    # explicit (shuffled) contract lists stay on the class's own listing cycle - the cycle FutureChain(cls, start, end)
    # itself lists (quarterly for ES/NK/Treasuries, monthly for VX): the statement speaks of chains "built from a
    # built-in class over a span". (Adjacent *monthly* Treasury contracts can share a last trading date.)
    y0 = draw(st.integers(1970, 2060))
    months = st.integers(1, 12) if cls == "VX" else st.sampled_from([3, 6, 9, 12])
    items = draw(st.lists(st.tuples(st.integers(0, 30), months), min_size=1, max_size=12, unique=True))
    return {"cls": cls, "mode": "list", "contracts": [[y0 + dy, m] for dy, m in items], "month": draw(st.sampled_from([0, 0, 1, 2]))}


def run_chain(case):
    res = Result()
    cls = getattr(C, case["cls"])
    res.tag(case["cls"], case["mode"], "month-offset=%d" % case.get("month", 0))
    if case["mode"] == "span":
        s, e = case["start"], case["end"]
        if case["fmt"] == "datetime":
            start, end = datetime(*s), datetime(*e)
        elif case["fmt"] == "str-month":
            start, end = "%04d-%02d" % tuple(s[:2]), "%04d-%02d" % tuple(e[:2])
        else:
            start, end = "%04d-%02d-%02d" % tuple(s), "%04d-%02d-%02d" % tuple(e)
        chain = C.FutureChain(cls, start, end, month=case.get("month", 0))
    else:
        futs = [cls(y, m) for y, m in case["contracts"]]
        chain = C.FutureChain(contracts=futs, month=case.get("month", 0))
        if len(chain.contracts) != len(futs):
            res.fail("explicit chain lost contracts: %d given, %d listed" % (len(futs), len(chain.contracts)))
    cs = list(chain.contracts)
    res.nontrivial = len(cs) >= 2
    if len(cs) >= 24:
        res.tag("long-chain")
    for a, b in zip(cs, cs[1:]):
        if not as_datetime(a.expiry) < as_datetime(b.expiry):
            res.fail("chain not strictly increasing in expiry: %s %s then %s %s" % (a, a.expiry, b, b.expiry))
            break
        if not as_datetime(a.last_trading_date) < as_datetime(b.last_trading_date):
            res.fail("chain not strictly increasing in last trading date: %s then %s" % (a, b))
            break
    syms = [c.symbol for c in cs]
    if len(set(syms)) != len(syms):
        res.fail("duplicate symbols in chain: %s" % sorted(s for s in set(syms) if syms.count(s) > 1)[:3])
    for c in cs:
        if not isinstance(c, cls):
            res.fail("chain of %s lists a %s" % (cls.__name__, type(c).__name__))
            break
    events = chain.make_events()
    if len(events) != len(cs):
        res.fail("%d discontinuation events for %d contracts" % (len(events), len(cs)))
    else:
        seen = set()
        for ev in events:
            if not isinstance(ev, EventContractDiscontinued):
                res.fail("make_events produced a %s" % type(ev).__name__)
                break
            if ev.contract.symbol in seen:
                res.fail("two discontinuation events for %s" % ev.contract.symbol)
                break
            seen.add(ev.contract.symbol)
            if as_datetime(ev.time) != as_datetime(ev.contract.expiry):
                res.fail("discontinuation of %s stamped %s, expiry is %s" % (ev.contract, ev.time, ev.contract.expiry))
                break
        if seen != set(syms) and not res.violations:
            res.fail("discontinuation events do not cover the chain's contracts")
    return res


PARTS = [
    Part("calendar", enumerate=enumerate_calendar, run=run_calendar),
    Part("chains", strategy=lambda tier: chain_cases(tier), run=run_chain, quick=600, thorough=8000),
]
