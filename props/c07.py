"""C07 Track record and rewards are a faithful, replayable account of the episode."""
from vlib.runner import Part, Result
from vlib import envlab as E
from vlib import episode_oracle as O

ID = "C07"
RULE = ("Generated bar-shaped episodes (3-10 timesteps with mixed gaps, 1-3 contracts among ETF / user spot (multiplier) / user margined / ES, or (one case in four) a FutureChain (ES, NK, ZN, VX) "
        "rolling over a last-trading date with every listed contract quoted, "
        "spreads {0, 0.1%, 2%}, +-10% moves, extra quotes inside and outside the latency window, fees, rate path, markup, latency, delay 0-2, "
        "weights with gross leverage <= 2, reward in {simple, log, pnl, LogReturn(scale, clip, risk_aversion)}). Independent replay: the book at "
        "each execution is rebuilt from the INPUT stream with the timing model; a ledger replays recorded trades and interest and must reproduce "
        "entry time, prices, commissions, holdings, weights, context_pre/post NLV; interest is cross-checked with the closed form on the ledger's "
        "cash; rewards are recomputed; with no interest and zero latency simple returns must telescope; TrackRecord frames must equal the entries. "
        "Non-trivial = >= 2 executions with non-zero trades, spread or fees > 0, and a quote change between executions.")
ASSUMPTIONS = [
    "money tolerance abs 1e-9 * (deposit + traded notional + open notional); trade prices compared with ==",
    "episodes ended by insolvency are cut at the ruin (C09) and counted as excluded",
    "bar-shaped data: every contract quoted at every timestep; latency < min gap",
]


def run(case):
    res = Result()
    stats = O.replay(case, res, {"ledger", "reward", "pricing", "frames"}, episodes=2 if case.get("second_episode") else 1)
    if stats["ruin"]:
        res.excluded = "ended-by-insolvency"
    costly = any(sp > 0 for row in case["bars"] for (_, sp) in row) or any(f > 0 for f in case["fees"])
    res.nontrivial = stats["nonzero_trade_execs"] >= 2 and costly and stats["quote_changed_between"] >= 1
    res.tag("reward-" + case["reward"][0], "delay=%d" % case["delay"])
    if case["latency_us"] > 0:
        res.tag("latency>0")
    if stats["interest_nonzero"]:
        res.tag("interest")
    if case.get("second_episode"):
        res.tag("two-episodes-on-one-environment")
    if any(s["kind"] in ("umargin", "es") for s in case["contracts"]):
        res.tag("margined")
    if any(s["kind"] == "chain" for s in case["contracts"]):
        res.tag("futures-chain")
    if any(s["kind"] == "uspot" and s["mult"] != 1 for s in case["contracts"]):
        res.tag("fully-paid-multiplier!=1")
    return res


from hypothesis import strategies as st


@st.composite
def cases(draw, tier="quick"):
    if draw(st.sampled_from([False, False, False, True])):
        c = draw(E.chain_episode_cases(tier))          # a FutureChain rolling over a last-trading date
        c["reward"] = draw(st.sampled_from([["simple"], ["log"], ["pnl"], ["logret", 0.01, 2.0, 0.1]]))
    else:
        c = draw(E.episode_cases(tier))
    c["second_episode"] = draw(st.sampled_from([False, False, True]))    # a second episode on the same environment
    return c


PARTS = [Part("episodes", strategy=lambda tier: cases(tier), run=run, quick=2500, thorough=150000)]
