"""C07 Track record and rewards are a faithful, replayable account of the episode."""
from vlib.runner import Part, Result
from vlib import envlab as E
from vlib import episode_oracle as O

ID = "C07"
RULE = ("Generated bar-shaped episodes (3-10 timesteps with mixed gaps, 1-3 contracts among ETF / user spot (multiplier) / user margined / ES, or (one case in four) a FutureChain (ES, NK, ZN, VX) "
        "rolling over a last-trading date with every listed contract quoted, "
        "spreads {0, 0.1%, 2%}, +-10% moves, extra quotes inside and outside the latency window, fees, rate path, markup, latency, delay 0-2, "
        "weights with gross leverage <= 2, one non-chain case in four with a shock (a held contract gaps up x16-x40: one step's |log-return| > 2), reward in {simple, log, pnl, LogReturn(scale, clip, risk_aversion)}). Independent replay: the book at "
        "each execution is rebuilt from the INPUT stream with the timing model; a ledger replays recorded trades and interest and must reproduce "
        "entry time, prices, commissions, holdings, weights, context_pre/post NLV; interest is cross-checked with the closed form on the ledger's "
        "cash; rewards are recomputed; with no interest and zero latency simple returns must telescope; TrackRecord frames must equal the entries. "
        "Non-trivial = >= 2 executions with non-zero trades, spread or fees > 0, and a quote change between executions.")
ASSUMPTIONS = [
    "money tolerance abs 1e-9 * (deposit + traded notional + open notional); trade prices compared with ==",
    "episodes ended by insolvency are cut at the ruin (C09) and counted as excluded; when the ruin is caused by the costs of an executed decision (one non-chain "
    "case in seven has a fixed commission of 30%-150% of the deposit) that execution must still have its entry: recorded trades replayed on the ledger give the "
    "recorded holdings and a context_post NLV <= 0 equal to the ledger's, and the step reports done",
    "bar-shaped data: every contract quoted at every timestep; latency < min gap",
]


def run(case):
    res = Result()
    stats = O.replay(case, res, {"ledger", "reward", "pricing", "frames"}, episodes=2 if case.get("second_episode") else 1)
    if stats["ruin"]:
        res.excluded = "ended-by-insolvency"
    costly = any(sp > 0 for row in case["bars"] for (_, sp) in row) or any(f > 0 for f in case["fees"])
    res.nontrivial = stats["nonzero_trade_execs"] >= 2 and costly and stats["quote_changed_between"] >= 1
    res.tag("reward-" + case["reward"][0], "delay=%d" % case["delay"])
    if case["latency_us"] > 0:
        res.tag("latency>0")
    if stats["interest_nonzero"]:
        res.tag("interest")
    if stats.get("cost_ruin"):
        res.tag("execution-whose-own-costs-exhaust-the-account")
    if case.get("shock"):
        res.tag("shock-step-multiplies-NLV")
    if case.get("second_episode"):
        res.tag("two-episodes-on-one-environment")
    if any(s["kind"] in ("umargin", "es") for s in case["contracts"]):
        res.tag("margined")
    if any(s["kind"] == "chain" for s in case["contracts"]):
        res.tag("futures-chain")
    if any(s["kind"] == "uspot" and s["mult"] != 1 for s in case["contracts"]):
        res.tag("fully-paid-multiplier!=1")
    return res


from hypothesis import strategies as st


@st.composite
def cases(draw, tier="quick"):
    if draw(st.sampled_from([False, False, False, True])):
        c = draw(E.chain_episode_cases(tier))          # a FutureChain rolling over a last-trading date
        c["reward"] = draw(st.sampled_from([["simple"], ["log"], ["pnl"], ["logret", 0.01, 2.0, 0.1]]))
    else:
        c = draw(E.episode_cases(tier))
        if draw(st.sampled_from([False, False, False, True])):
            shock(draw, c)
        elif draw(st.sampled_from([False, False, False, False, True])):
            # a fixed commission of the order of the whole account: the costs of some execution exhaust it
            c["fees"][0] = c["deposit"] * draw(st.sampled_from([0.3, 0.45, 0.7, 1.5]))
            for a in c["actions"]:
                a[0] = a[0] if abs(a[0]) >= 0.05 else 0.25
            c["costly"] = True
    c["second_episode"] = draw(st.sampled_from([False, False, True]))    # a second episode on the same environment
    return c


@st.composite
def long_cases(draw, tier="quick"):
    """Episodes of 20-50 timesteps over 4-8 contracts with up to 60 extra quotes (several per timestep and contract)."""
    c = draw(E.episode_cases(tier, min_points=20, max_points=50, min_contracts=4, max_contracts=8, max_extras=60, leverage=1.0))
    c["second_episode"] = draw(st.sampled_from([False, False, False, True]))
    return c


def run_long(case):
    res = run(case)
    res.tag("long")
    return res


def shock(draw, c):
    """One contract, held long, gaps up by a factor 16-40 and stays there: a single step multiplies the NLV by ~10
    (|log-return| > 2, far outside the range where any scaled / clipped variant coincides with the plain one)."""
    npts, n = len(c["bars"]), len(c["contracts"])
    first = c["delay"] + 2
    if first > npts - 1:
        return
    gi = draw(st.integers(first, npts - 1))
    ci = draw(st.integers(0, n - 1))
    f = draw(st.sampled_from([16.0, 40.0]))
    for k in range(gi, npts):
        c["bars"][k][ci][0] *= f
    c["extras"] = [e for e in c["extras"] if not (e[2] == ci and e[0] >= gi - 1)]
    for a in c["actions"]:
        a[ci] = max(abs(a[ci]), 0.6)
    c["reward"] = draw(st.sampled_from([["log"], ["log"], ["simple"], ["logret", 0.5, 1.0, 0.0], ["pnl"]]))
    c["shock"] = [gi, ci, f]


# ---------------------------------------------------------------------------------------- tabular rewards
import math

import numpy as np

from vlib import xylab


@st.composite
def xy_cases(draw, tier="quick"):
    """TradingEnvXY always rewards with LogReturn(scale = mean std of the log returns of Y up to transformer_end,
    clip = reward_clipping, risk_aversion): near fully invested accounts so that the clip is active on large moves."""
    c = draw(xylab.cases(tier))
    c["fold2"] = None
    # float64 price tables only: with a float32 table the library estimates the reward scale in float32 (its choice of
    # precision for a constant it chooses itself); the reference below recomputes the scale in float64
    c.pop("y_dtype", None)
    c["reward_clipping"] = draw(st.sampled_from([2.0, 2.0, 0.5, 1.0, 3.0]))
    c["risk_aversion"] = draw(st.sampled_from([0.0, 0.0, 0.1, 0.5]))
    sign = draw(st.sampled_from([1.0, 1.0, -1.0]))
    c["xy_weight"] = sign * draw(st.sampled_from([1.0, 0.9, 0.5]))
    return c


def run_xy(case):
    res = Result()
    env = xylab.build_env(case)
    tables = xylab.tables_from_case(case)
    clipv, ra = case["reward_clipping"], case["risk_aversion"]
    # reference scale from the INPUT prices (statement/docstring: rewards are the log-ratio scaled and clipped)
    te = env.broker if False else None
    Y = tables["Y"]
    te_day = xylab.day(case, case["transformer_end"]) if case.get("transformer_end") is not None else env.Y.index[-1]
    hist = Y.loc[:te_day]
    stds = []
    for col in hist.columns:
        v = np.log(hist[col].values.astype(float))
        d = np.diff(v)                       # NaN prices give NaN differences, which a standard deviation skips
        d = d[~np.isnan(d)]
        if len(d) >= 2:
            stds.append(float(np.std(d, ddof=1)))
        else:
            stds.append(float("nan"))
    scale = float(np.mean(stds)) if stds and not any(math.isnan(x) for x in stds) else float("nan")
    if not (scale > 0) or math.isnan(scale):
        res.excluded = "reward-scale-undefined"
        return res
    env.reset(case["fold"] if case["folds"] is not None else "training-set")
    nassets = len(env.action_space.contracts)
    clipped = 0
    steps = 0
    w = max(case["max_short"], min(case["max_long"], case["xy_weight"])) / max(1, nassets)
    done = False
    while not done and steps < 200:
        action = np.array([w if not np.isnan(env.exchange[c].bid_price) else 0.0 for c in env.action_space.contracts])
        obs, reward, done, info = env.step(action)
        steps += 1
        if not info:
            res.excluded = "ended-by-insolvency"
            break
        pre = float(info["_rebalancing"].context_pre.nlv) if info.get("_rebalancing") is not None else None
        tr = env.broker.track_record
        pre = float(tr[-1].context_pre.nlv)
        now = float(env.broker.net_liquidation_value(raise_if_broke=False))
        if now <= 0:
            break
        raw = math.log(now / pre) / scale
        want = max(-clipv, min(clipv, raw))
        if abs(raw) > clipv:
            clipped += 1
        if want < 0:
            want *= (1 + ra)
        if not abs(float(reward) - want) <= 1e-9 * max(1.0, abs(want)) + 1e-9 / scale * 1e-3:
            res.fail("step %d at %s: reward %r, clip(log(%r/%r)/%r, +-%r) with risk aversion %r gives %r" % (
                steps, env.now(), reward, now, pre, scale, clipv, ra, want))
            break
    res.nontrivial = clipped > 0 and steps >= 3
    res.tag("reward_clipping=%g" % clipv, "risk_aversion=%g" % ra)
    if clipped:
        res.tag("clip-active")
    return res


PARTS = [
    Part("episodes", strategy=lambda tier: cases(tier), run=run, quick=2500, thorough=150000),
    Part("long", strategy=lambda tier: long_cases(tier), run=run_long, quick=300, thorough=20000),
    Part("xy-rewards", strategy=lambda tier: xy_cases(tier), run=run_xy, quick=400, thorough=12000),
]
RULE = RULE + (" long: the same replay on episodes of 20-50 timesteps over 4-8 contracts with up to 60 extra quotes.")
RULE = RULE + (" xy-rewards: generated TradingEnvXY configurations (xylab) with reward_clipping in {0.5,1,2,3} and risk_aversion in {0,0.1,0.5}, "
               "near fully invested; every step's reward must equal clip(log(NLV now / recorded pre-trade NLV) / scale, +-reward_clipping) "
               "(x (1+risk_aversion) when negative) with scale recomputed from the input prices up to transformer_end; non-trivial = the clip "
               "is active on at least one step.")
