"""C16 Performance metrics equal their definitions and are scale-invariant; invalid level series are rejected.

Part `definitions` builds valid level Series / 1-3 column DataFrames (calendar-daily, business-daily,
irregular gaps, intraday with 1-5 observations per day; optional risk-free and benchmark levels on the
same index), calls every metric tradingenv installs on pandas objects and compares it with reference
functions written from the textbook definitions with numpy and python floats only (section REFERENCE
below never calls pandas or tradingenv). A share of the cases also goes through `NDFrame.tearsheet`
and `TrackRecord.tearsheet`.
Part `scale` is metamorphic: every metric of c * levels equals the metric of levels.
(the scaled objects are `obj * c` of the already measured objects).
Part `window` calls `tearsheet(risk_free=..., benchmark=...)` and `TrackRecord.tearsheet()` (risk_free / benchmark
attached as TradingEnv.backtest does) with series that start / end before or after the strategy and grow differently
outside the common stretch; every row must be the metric of the common rows.
Part `derived` measures an object, obtains a second one from it with pandas operations (`obj * c`, `obj.mul(c)`,
`obj / c`, `obj * series`, `obj.copy()` + `iloc` assignment, `obj.iloc[a:b]`) or edits the same object in place,
and compares the metrics of the result with the reference of the values it holds; then a benchmark / risk-free
obtained from measured objects (`series * wiggle`, rows reassigned in place) is used.
Part `reject` applies one defect to a valid input and requires every metric to raise.
"""
import math
from datetime import datetime, timedelta, timezone
from fractions import Fraction

import numpy as np
import pandas as pd
from hypothesis import strategies as st

from vlib.runner import Part, Result
import tradingenv  # noqa: F401  (importing the package installs the metric methods on pandas objects)
from tradingenv.broker.track_record import TrackRecord
from tradingenv.broker.rebalancing import Rebalancing
from tradingenv.broker.broker import Context
from tradingenv.contracts import ETF

ID = "C16"

RULE = ("definitions/scale/reject: Hypothesis draws n in 2..400 observations; index kind in {calendar-daily, "
        "business-daily, irregular gaps of 1..400 days, intraday with 1-5 observations per day and day gaps 1..3}, "
        "first-to-last timestamp >= 24 h; 1 Series or a 1-3 column DataFrame; levels = first * cumulative product of "
        "moves, moves = 1 + k*1e-6 (|k| <= 50000, k = 0 gives constant stretches), heavy-tailed variant mixes in "
        "x0.02..x50 moves, optional integer-valued levels; optional risk-free (series / 1-column frame / number) and "
        "benchmark (series / 1-column frame; own, near-tracking or identical moves) on the same index; quantile in "
        "{default 0.025, 0.05, 0.02, dyadic 1/2..1/32, 0.75, generated}. scale: c = 2^k (|k| <= 20) or 10^u, u in "
        "[-6, 6], independent constants for risk-free and benchmark. reject: one defect (NaN, value <= 0, duplicated "
        "timestamp, two rows swapped, NaT, RangeIndex, string index, integer index) in the series itself, its "
        "risk-free or its benchmark. window: n in 4..160, strategy / risk-free / benchmark each cover the time grid minus "
        "0..n/3 rows at either end (common stretch >= 2 rows and >= 24 h, else all on the same index), risk-free and "
        "benchmark moves outside the strategy's stretch replaced / multiplied by a different growth. derived: same inputs (4 of 7 intraday), one operation in {obj*c, obj.mul(c), obj/c, "
        "obj*series of factors 0.8..1.2, copy + 1-4 rows reassigned, same object with 1-4 rows reassigned in place, "
        "obj.iloc[a:b]} applied after the original was measured, optionally followed by a benchmark = measured series "
        "* wiggle, a benchmark edited in place, a risk-free = measured risk-free * wiggle. Three cases in eight carry a timezone-aware index "
        "(fixed offsets -5 h, +9 h, -11 h, same wall-clock times; calendar days are those of the index's own clock). calendars: strategy on 6-40 daily "
        "dates with gaps 1-4, benchmark on its own calendar (0-3 of the strategy's dates dropped, 0-3 other dates inserted, mostly the same number of "
        "observations); wherever both are observed on a date and on the same preceding date, excess_returns must equal r_strategy - r_benchmark of "
        "those two dates (non-trivial = >= 2 such dates and calendars differ). non-trivial (other parts) = at least 3 daily levels and the returns of the first column are "
        "not all equal.")

ASSUMPTIONS = [
    "metrics vs reference: rel 1e-9 (+ 1e-13 x magnitude of the operands of the last subtraction), NaN equals NaN, "
    "inf equals inf of the same sign; a ratio whose denominator is < 1e-12 in absolute value is skipped and counted",
    "scale invariance: rel 1e-12 for c = 2^k, rel 1e-7 for arbitrary c in [1e-6, 1e6]",
    "conventions taken from the metric docstrings and DESIGN: daily levels = last observation of each calendar date; "
    "years = whole days elapsed between first and last timestamp / 365 (nr_calendar_days = (last - first).days); "
    "annualisation sqrt(252); sample standard deviation (ddof = 1); VaR = linearly interpolated quantile of simple "
    "returns at position (m-1)q; expected shortfall = mean of returns <= VaR; downside/upside volatility = "
    "sqrt(252) * std of the strictly negative / strictly positive returns; Martin risk = ulcer index over all daily "
    "levels; ratios = (CAGR - risk-free CAGR) / risk; tracking error = sqrt(252) * std(return - benchmark return)",
    "expected shortfall boundary: judged strictly when the VaR is exactly a data point (position (m-1)q an integer in "
    "exact arithmetic, or the two bracketing returns are equal); when another return lies within 1e-9 x max|r| of an "
    "interpolated VaR both memberships are accepted (indifference band, counted)",
    "rejection = any exception; a returned value is a violation",
    "inputs: float64 or int64 levels in about [1e-9, 1e11], tz-naive timestamps 1995..2040, distinct string column "
    "names; +inf levels, tz-aware and non-unique column labels are outside the generator",
    "tearsheet() is compared row by row (Years .. Martin ratio, CAGR over benchmark, Information ratio) with a "
    "level-series or default (0) risk-free only: a non-zero numeric risk_free is turned by the tearsheet into a "
    "synthetic series compounding 252 rows a year, and the CAPM rows (alpha, beta, correlation, omega) are not in the "
    "statement; tearsheet(benchmark=...) is called for one asset only (multi-column frames raise KeyError 'alpha')",
    "tracking_error / information_ratio / tearsheet(benchmark=...) on exactly two daily levels (one return) are "
    "treated per KNOWN_CANDIDATES (see bottom of the module)",
]

REL = 1e-9
DEN_MIN = 1e-12
SQ = math.sqrt(252.0)

# Candidate genuine defect found while building this check (not yet in known_findings.json):
# excess_returns() squeezes the benchmark's returns; with exactly one return the squeeze yields a scalar and
# `.reindex` raises AttributeError. While the flag is True that precise outcome (AttributeError, two daily levels,
# a benchmark given) is counted under `excluded`; any other outcome is still compared with the reference (NaN).
KNOWN_CANDIDATES = {"tracking-error-two-levels": False}   # repaired in /repo by 0e50798 ("fix: excess returns ...")


# =========================================================================================== REFERENCE
# numpy / python only. Input: list of python datetimes (strictly increasing) and a 1-D float array.

def ref_collapse(times, x):
    """Daily levels: the last observation of every calendar date."""
    keep = [i for i in range(len(times)) if i + 1 == len(times) or times[i + 1].date() != times[i].date()]
    return [times[i].date() for i in keep], np.asarray(x, dtype=float)[keep]


def ref_years(times):
    return (times[-1] - times[0]).days / 365.0


def ref_std(v):
    v = np.asarray(v, dtype=float)
    if len(v) < 2:
        return float("nan")
    mean = float(np.sum(v)) / len(v)
    return math.sqrt(float(np.sum((v - mean) ** 2)) / (len(v) - 1))


def ref_cagr(times, lv):
    years = ref_years(times)
    with np.errstate(all="ignore"):
        return float(np.power(np.float64(lv[-1] / lv[0]), np.float64(1.0 / years)) - 1.0)


def ref_quantile(xs_sorted, q):
    m = len(xs_sorted)
    pos = (m - 1) * q
    lo = int(math.floor(pos))
    hi = min(lo + 1, m - 1)
    return float(xs_sorted[lo] + (xs_sorted[hi] - xs_sorted[lo]) * (pos - lo)), lo, hi


def ref_var_es(r, q):
    """-> (VaR, [acceptable ES values], in_band, fragile).

    in_band: the membership of some return in the tail cannot be decided beyond rounding (several values accepted).
    fragile: an arbitrary rescaling of the levels (returns move by an ulp) may change the tail membership."""
    m = len(r)
    if m == 0:
        return float("nan"), [float("nan")], False, False
    xs = np.sort(np.asarray(r, dtype=float))
    var, lo, hi = ref_quantile(xs, q)
    band = 1e-9 * max(float(np.max(np.abs(xs))), 1e-300)
    near = np.abs(xs - var) <= band
    nnear = int(np.sum(near))
    below = int(np.sum((xs <= var) & ~near))
    if (Fraction(q) * (m - 1)).denominator == 1 or xs[lo] == xs[hi]:
        # the VaR is the data point xs[lo] itself: it belongs to the tail, with everything not above it
        if np.all(xs[near] == xs[lo]):
            return var, [float(np.mean(xs[xs <= xs[lo]]))], False, nnear >= 2
        first = lo + 1
    else:
        if nnear == 0:
            return var, [float(np.mean(xs[xs <= var]))], False, False
        first = below
    # the returns within the band form a block of the sorted sample; a VaR perturbed by rounding keeps a prefix
    cands = [float(np.mean(xs[:j])) if j else float("nan") for j in range(first, below + nnear + 1)]
    return var, cands, True, True


class Q:
    """A reference quantity: value (float or 1-D array), extra absolute tolerance, optional skip reason."""
    __slots__ = ("v", "extra", "skip", "alts")

    def __init__(self, v, extra=0.0, skip=None, alts=None):
        self.v, self.extra, self.skip, self.alts = v, extra, skip, alts


def q_sub(a, b):
    return Q(a.v - b.v, a.extra + b.extra + 1e-13 * (abs(a.v) + abs(b.v)) if math.isfinite(a.v) and math.isfinite(b.v) else 0.0)


def q_div(num, den, negate_den=False):
    d = -den.v if negate_den else den.v
    if isinstance(d, float) and math.isnan(d):
        return Q(float("nan"))
    if abs(d) < DEN_MIN:
        return Q(float("nan"), skip="denominator<1e-12")
    with np.errstate(all="ignore"):
        v = float(np.float64(num.v) / np.float64(d))
    if not math.isfinite(v):
        return Q(v)
    return Q(v, (num.extra + abs(v) * den.extra) / abs(d))


def ref_metrics(times, x, qs, rf_cagr=None, bm=None):
    """All scalar and vector metrics of one column. rf_cagr: Q or None (=0). bm: 1-D array on the same index."""
    out = {}
    dates, lv = ref_collapse(times, x)
    out["dates"] = dates
    out["level"] = Q(lv)
    r = lv[1:] / lv[:-1] - 1.0
    rmax = float(np.max(np.abs(r))) if len(r) else 0.0
    out["simple_returns"] = Q(r, 1e-13 * (1.0 + rmax))
    lr = np.log(lv[1:] / lv[:-1])
    out["log_returns"] = Q(lr, 4e-15 * (1.0 + float(np.max(np.abs(np.log(lv))))) + 1e-13 * (1.0 + rmax))
    out["nr_calendar_days"] = Q(float((times[-1] - times[0]).days))
    out["nr_observations"] = Q(float(len(times)))
    out["nr_years"] = Q(ref_years(times), 1e-15)
    cagr = ref_cagr(times, lv)
    out["cagr"] = Q(cagr, 1e-13 * (1.0 + abs(cagr)) if math.isfinite(cagr) else 0.0)
    cum = lv / lv[0] - 1.0
    out["cumulative_return"] = Q(cum, 1e-13 * (1.0 + float(np.max(np.abs(cum)))))
    out["overall_return"] = Q(float(cum[-1]), 1e-13 * (1.0 + abs(float(cum[-1]))))
    out["volatility"] = Q(SQ * ref_std(r), 1e-13 * SQ * rmax)
    run, dd = -1.0, []
    for v in lv:
        run = max(run, float(v))
        dd.append(float(v) / run - 1.0)
    dd = np.array(dd)
    out["drawdown"] = Q(dd, 1e-13)
    out["max_drawdown"] = Q(float(np.min(dd)), 1e-13)
    for q in qs:
        var, es, band, fragile = ref_var_es(r, q)
        out[("es_fragile", q)] = fragile
        out[("value_at_risk", q)] = Q(var, 1e-13 * rmax)
        out[("expected_shortfall", q)] = Q(es[0], 1e-13 * rmax, alts=es, skip="es-band" if band else None)
    # a daily return within rounding of zero (levels one ulp apart) may land on either side of the `> 0` / `< 0`
    # selection once the levels are multiplied by a constant that is not a power of two
    out["sign_fragile"] = bool(np.any((r != 0) & (np.abs(r) < 1e-12)))
    out["downside_volatility"] = Q(SQ * ref_std(r[r < 0]), 1e-13 * SQ * rmax)
    out["upside_volatility"] = Q(SQ * ref_std(r[r > 0]), 1e-13 * SQ * rmax)
    out["martin_risk"] = Q(math.sqrt(float(np.mean(dd ** 2))), 1e-13)
    rf = rf_cagr if rf_cagr is not None else Q(0.0)
    ex = q_sub(out["cagr"], rf)
    out["excess_cagr"] = ex
    out["sharpe_ratio"] = q_div(ex, out["volatility"])
    out["sortino_ratio"] = q_div(ex, out["downside_volatility"])
    out["calmar_ratio"] = q_div(ex, out["max_drawdown"], negate_den=True)
    out["martin_ratio"] = q_div(ex, out["martin_risk"])
    if bm is not None:
        _, blv = ref_collapse(times, bm)
        rb = blv[1:] / blv[:-1] - 1.0
        bmax = float(np.max(np.abs(rb))) if len(rb) else 0.0
        exr = r - rb
        out["excess_returns"] = Q(exr, 1e-13 * (1.0 + rmax + bmax))
        out["tracking_error"] = Q(SQ * ref_std(exr), 1e-13 * SQ * (rmax + bmax))
        bc = ref_cagr(times, blv)
        exb = q_sub(out["cagr"], Q(bc, 1e-13 * (1.0 + abs(bc)) if math.isfinite(bc) else 0.0))
        out["excess_cagr_bm"] = exb
        out["information_ratio"] = q_div(exb, out["tracking_error"])
    return out


# =========================================================================================== COMPARISON

def same(a, b, rel, extra=0.0):
    a, b = float(a), float(b)
    if math.isnan(a) or math.isnan(b):
        return math.isnan(a) and math.isnan(b)
    if math.isinf(a) or math.isinf(b):
        return a == b
    return abs(a - b) <= rel * max(abs(a), abs(b)) + extra


def same_vec(a, b, rel, extra=0.0):
    a, b = np.asarray(a, dtype=float), np.asarray(b, dtype=float)
    if a.shape != b.shape:
        return False
    return all(same(u, v, rel, extra) for u, v in zip(a, b))


def columns_of(result, frame):
    """Per-column view of what a metric returned: list of floats or of 1-D arrays."""
    if isinstance(frame, pd.DataFrame):
        if isinstance(result, pd.DataFrame):
            if list(result.columns) != list(frame.columns):
                raise _Shape("columns %s" % list(result.columns))
            return [result[c].to_numpy() for c in frame.columns], list(result.index)
        if isinstance(result, pd.Series):
            if list(result.index) != list(frame.columns):
                raise _Shape("index %s" % list(result.index))
            return [float(result[c]) for c in frame.columns], None
        raise _Shape("type %s" % type(result).__name__)
    if isinstance(result, pd.Series):
        return [result.to_numpy()], list(result.index)
    if isinstance(result, pd.DataFrame):
        raise _Shape("DataFrame from a Series")
    return [float(result)], None


class _Shape(Exception):
    pass


def label_date(lbl):
    return lbl.date() if hasattr(lbl, "hour") else lbl


def fmt(v):
    if isinstance(v, np.ndarray):
        return "[" + ", ".join("%.12g" % u for u in v[:6]) + (" ...]" if len(v) > 6 else "]")
    return "%.15g" % v


# =========================================================================================== BUILDING INPUTS

COLS = ["a", "b", "c"]


def build_times(case):
    start = datetime(*case["start"])
    return [start + timedelta(minutes=int(o)) for o in case["t"]]


def build_levels(spec, as_int=False):
    out = [float(spec["first"])]
    for m in spec["moves"]:
        out.append(out[-1] * float(m))
    arr = np.array(out, dtype=float)
    if as_int:
        return np.maximum(1, np.rint(arr * 1000.0)).astype("int64")
    return arr


def build(case):
    """-> times, frame (Series or DataFrame), list of per-column arrays, rf object/array, bm object/array."""
    times = build_times(case)
    idx = pd.DatetimeIndex(times)
    if case.get("tz_hours") is not None:
        # a timezone-aware index (fixed offset: no DST gaps) holding the same wall-clock times: calendar days, and hence
        # every definition, are those of the index's own clock
        idx = idx.tz_localize(timezone(timedelta(hours=case["tz_hours"])))
    arrays = [build_levels(c, case.get("int", False)) for c in case["cols"]]
    if case["frame"] == "series":
        frame = pd.Series(arrays[0], index=idx, name="x")
    else:
        frame = pd.DataFrame({COLS[j]: a for j, a in enumerate(arrays)}, index=idx)
    rf_obj = rf_arr = None
    rf = case.get("rf")
    if rf is not None:
        if rf["form"] == "float":
            rf_obj = float(rf["value"])
        else:
            rf_arr = build_levels(rf)
            rf_obj = pd.Series(rf_arr, index=idx, name="RF")
            if rf["form"] == "df1":
                rf_obj = rf_obj.to_frame()
    bm_obj = bm_arr = None
    bm = case.get("bm")
    if bm is not None:
        bm_arr = build_levels(bm)
        bm_obj = pd.Series(bm_arr, index=idx, name="BM")
        if bm["form"] == "df1":
            bm_obj = bm_obj.to_frame()
    return times, frame, arrays, rf_obj, rf_arr, bm_obj, bm_arr


def tag_base(res, case, times, arrays):
    res.tag("index:" + case["kind"], "frame:series" if case["frame"] == "series" else "frame:df%d" % len(arrays))
    rf, bm = case.get("rf"), case.get("bm")
    res.tag("rf:" + (rf["form"] if rf else "none"), "bm:" + ((bm["form"] + "/" + bm["mode"]) if bm else "none"))
    res.tag("moves:" + case["variant"])
    if case.get("int"):
        res.tag("int-levels")
    dates, lv = ref_collapse(times, arrays[0])
    if len(dates) < len(times):
        res.tag("intraday-collapsed")
    if times[-1].time() < times[0].time():
        res.tag("last-time-of-day-before-first")
    if case.get("tz_hours") is not None:
        res.tag("tz-aware-index")
        off = timedelta(hours=case["tz_hours"])
        if len(dates) < len(times) and any((t - off).date() != t.date() for t in times):
            res.tag("tz-aware-intraday-local-date!=utc-date")
    n = len(times)
    res.tag("n:2" if n == 2 else "n:3-10" if n <= 10 else "n:11-60" if n <= 60 else "n:61-400")
    r = lv[1:] / lv[:-1] - 1.0
    if len(r) and np.any(r == 0):
        res.tag("zero-returns")
    if len(lv) == 2:
        res.tag("two-daily-levels")
    res.nontrivial = len(lv) >= 3 and not np.all(r == r[0])
    return len(lv)


def exclude(res, reason):
    if res.excluded is None:
        res.excluded = reason
    res.tag("excluded:" + reason)


# =========================================================================================== PART definitions

def check_metric(res, what, got_cols, refs, rel, labels=None):
    """Compare per-column results with per-column reference quantities."""
    for j, (got, ref) in enumerate(zip(got_cols, refs)):
        if ref.skip == "denominator<1e-12":
            exclude(res, ref.skip)
            continue
        if isinstance(ref.v, np.ndarray):
            ok = isinstance(got, np.ndarray) and same_vec(got, ref.v, rel, ref.extra)
        elif ref.alts is not None:
            if ref.skip:
                exclude(res, ref.skip)
            ok = any(same(got, alt, rel, ref.extra) for alt in ref.alts)
        else:
            ok = same(got, ref.v, rel, ref.extra)
        if not ok:
            res.fail("%s column %d: tradingenv %s, definition gives %s" % (what, j, fmt(got), fmt(ref.v)))


def is_known_te(exc, ndaily, has_bm):
    return (KNOWN_CANDIDATES["tracking-error-two-levels"] and has_bm and ndaily == 2
            and isinstance(exc, AttributeError) and "reindex" in str(exc))


def run_definitions(case):
    res = Result()
    times, frame, arrays, rf_obj, rf_arr, bm_obj, bm_arr = build(case)
    ndaily = tag_base(res, case, times, arrays)
    q = case.get("q")
    res.tag("q:default" if q is None else "q:dyadic" if Fraction(q).denominator <= 64 else "q:other")
    measure(res, frame, times, arrays, rf_obj, rf_arr, bm_obj, bm_arr, q, ndaily,
            tearsheet=bool(case.get("tearsheet")), track=bool(case.get("track")))
    return res


def measure(res, frame, times, arrays, rf_obj, rf_arr, bm_obj, bm_arr, q, ndaily, stage="", tearsheet=False,
            track=False):
    """Call every metric on `frame` and compare it with the reference computed from `arrays` (the values the
    frame holds now), `rf_arr` / `bm_arr`. `stage` prefixes the violation texts."""
    qs = sorted({0.025, 0.05, 0.02} | ({q} if q is not None else set()))
    # reference values
    if rf_arr is not None:
        _, rlv = ref_collapse(times, rf_arr)
        rc = ref_cagr(times, rlv)
        rf_q = Q(rc, 1e-13 * (1.0 + abs(rc)) if math.isfinite(rc) else 0.0)
    elif rf_obj is not None:
        rf_q = Q(float(rf_obj))
    else:
        rf_q = None
    refs = [ref_metrics(times, a, qs, rf_q, bm_arr) for a in arrays]
    dates = refs[0]["dates"]

    def call(name, *args):
        return getattr(frame, name)(*args)

    def compare(what, result, key, want_labels=None):
        try:
            got, labels = columns_of(result, frame)
        except _Shape as exc:
            res.fail("%s returned an object of unexpected shape (%s)" % (what, exc))
            return
        check_metric(res, stage + what, got, [r[key] for r in refs], REL)
        if want_labels is not None and labels is not None:
            if [label_date(l) for l in labels] != want_labels:
                res.fail("%s%s is labelled %s..., expected the dates %s..." % (stage, what, labels[:3], want_labels[:3]))

    try:
        frame.validate()
    except Exception as exc:  # noqa
        res.fail("%svalid level data rejected: %s: %s" % (stage, type(exc).__name__, exc))
        return

    compare("level()", call("level"), "level", dates)
    compare("simple_returns()", call("simple_returns"), "simple_returns", dates[1:])
    compare("log_returns()", call("log_returns"), "log_returns", dates[1:])
    compare("cumulative_return()", call("cumulative_return"), "cumulative_return", dates)
    dd = call("drawdown")
    compare("drawdown()", dd, "drawdown", dates)
    ddv = np.asarray(dd.to_numpy(), dtype=float)
    if not np.all((ddv > -1.0) & (ddv <= 0.0)):
        res.fail("%sdrawdown outside (-1, 0]: min %.17g max %.17g" % (stage, ddv.min(), ddv.max()))
    for j, a in enumerate(arrays):
        lv = refs[j]["level"].v
        col = ddv if ddv.ndim == 1 else ddv[:, j]
        if len(col) == len(lv):
            high = lv >= np.maximum.accumulate(lv)
            if np.any(col[high] != 0.0):
                res.fail("%sdrawdown is not 0 at a running high (column %d): %s" % (stage, j, fmt(col[high][col[high] != 0.0])))
    for name in ("nr_calendar_days", "nr_observations", "nr_years"):
        v = call(name)
        for r in refs:
            if not same(v, r[name].v, REL, r[name].extra):
                res.fail("%s%s() = %s, definition gives %s" % (stage, name, v, r[name].v))
                break
    for name in ("cagr", "overall_return", "volatility", "max_drawdown", "downside_volatility",
                 "upside_volatility", "martin_risk"):
        compare(name + "()", call(name), name)
    mdd = call("max_drawdown")
    if not same_vec(np.atleast_1d(np.asarray(mdd, dtype=float)), np.atleast_1d(ddv.min(axis=0)), 0.0):
        res.fail(stage + "max_drawdown() != min(drawdown())")
    if q is None:
        compare("value_at_risk()", call("value_at_risk"), ("value_at_risk", 0.025))
        compare("expected_shortfall()", call("expected_shortfall"), ("expected_shortfall", 0.025))
    else:
        compare("value_at_risk(%r)" % q, call("value_at_risk", q), ("value_at_risk", q))
        compare("expected_shortfall(%r)" % q, call("expected_shortfall", q), ("expected_shortfall", q))
    ratio_names = ("excess_cagr", "sharpe_ratio", "sortino_ratio", "calmar_ratio", "martin_ratio")
    for name in ratio_names:
        if rf_obj is None:
            compare(name + "()", call(name), name)
        else:
            compare(name + "(risk_free)", call(name, rf_obj), name)
    if rf_arr is not None:
        # a level series as risk-free means its CAGR
        rate = float(rf_obj.squeeze().cagr())
        a = columns_of(call("sharpe_ratio", rf_obj), frame)[0]
        b = columns_of(call("sharpe_ratio", rate), frame)[0]
        if not all(same(u, v, 1e-12) for u, v in zip(a, b)):
            res.fail("sharpe_ratio(series) %s != sharpe_ratio(cagr of that series) %s" % (a, b))
    if bm_obj is not None:
        for name, key in (("excess_returns", "excess_returns"), ("tracking_error", "tracking_error"),
                          ("information_ratio", "information_ratio"), ("excess_cagr", "excess_cagr_bm")):
            try:
                result = call(name, bm_obj)
            except AttributeError as exc:
                if is_known_te(exc, ndaily, True):
                    exclude(res, "candidate:tracking-error-two-levels")
                    continue
                raise
            compare(name + "(benchmark)", result, key, dates[1:] if name == "excess_returns" else None)

    if tearsheet:
        # (risk-free as a level series, as a number - an annual rate - or absent)
        check_tearsheet(res, frame, refs, rf_obj, bm_obj, ndaily)
        if rf_obj is not None and rf_arr is None:
            res.tag("tearsheet:numeric-risk-free")
    if track:
        # TrackRecord.tearsheet() measures the net liquidation values with risk_free = 0 and no benchmark
        check_track_record(res, times, arrays[0], [ref_metrics(times, arrays[0], qs)])


TEARSHEET_ROWS = [
    (("Context", "Years"), "nr_years"), (("Context", "Observations"), "nr_observations"),
    (("Return", "CAGR"), "cagr"), (("Return", "CAGR over cash"), "excess_cagr"),
    (("Return", "Overall return"), "overall_return"), (("Risk", "Volatility"), "volatility"),
    (("Risk", "Downside volatility"), "downside_volatility"), (("Risk", "Upside volatility"), "upside_volatility"),
    (("Risk", "Max drawdown"), "max_drawdown"), (("Risk", "Martin risk"), "martin_risk"),
    (("Risk", "VaR 5%"), ("value_at_risk", 0.05)), (("Risk", "VaR 2%"), ("value_at_risk", 0.02)),
    (("Risk", "Expected shortfall 5%"), ("expected_shortfall", 0.05)),
    (("Risk", "Expected shortfall 2%"), ("expected_shortfall", 0.02)),
    (("Risk-adjusted return", "Sharpe ratio"), "sharpe_ratio"),
    (("Risk-adjusted return", "Sortino ratio"), "sortino_ratio"),
    (("Risk-adjusted return", "Calmar ratio"), "calmar_ratio"),
    (("Risk-adjusted return", "Martin ratio"), "martin_ratio"),
]
TEARSHEET_BM_ROWS = [(("Outperformance", "CAGR over benchmark"), "excess_cagr_bm"),
                     (("Outperformance", "Information ratio"), "information_ratio")]


def compare_tearsheet(res, what, sheet, refs, rows):
    if sheet.shape[1] != len(refs):
        res.fail("%s has %d columns for %d level columns" % (what, sheet.shape[1], len(refs)))
        return
    for key, name in rows:
        if key not in sheet.index:
            res.fail("%s lacks the row %s" % (what, key))
            continue
        got = [float(sheet.loc[key].iloc[j]) for j in range(len(refs))]
        check_metric(res, "%s[%s]" % (what, key[1]), got, [r[name] for r in refs], REL)


def check_tearsheet(res, frame, refs, rf_series, bm_obj, ndaily):
    multi = isinstance(frame, pd.DataFrame) and frame.shape[1] > 1
    # The benchmark block of the tearsheet holds rows the statement does not list (CAPM alpha/beta, correlation),
    # defined for one asset and undefined for a single return: with two daily levels the listed benchmark
    # metrics are checked through their own methods instead.
    use_bm = bm_obj is not None and not multi and ndaily > 2
    kwargs = {}
    if rf_series is not None:
        kwargs["risk_free"] = rf_series
    if use_bm:
        kwargs["benchmark"] = bm_obj
    res.tag("tearsheet" + ("+bm" if use_bm else ""))
    try:
        sheet = frame.tearsheet(**kwargs)
    except AttributeError as exc:
        if is_known_te(exc, ndaily, use_bm):
            exclude(res, "candidate:tracking-error-two-levels")
            return
        raise
    rows = TEARSHEET_ROWS + (TEARSHEET_BM_ROWS if use_bm else [])
    compare_tearsheet(res, "tearsheet", sheet, refs, rows)


def check_track_record(res, times, levels, refs, risk_free=None, benchmark=None, rows=None, what="TrackRecord.tearsheet"):
    """TrackRecord.tearsheet(): net liquidation values recorded checkpoint by checkpoint, as Broker.rebalance does.
    `risk_free` / `benchmark` are attached the way TradingEnv.backtest attaches the user's series."""
    res.tag("track-record")
    track = TrackRecord()
    # the record is stamped with the simulation's timezone-naive clock: the attached series are on the same clock
    if getattr(getattr(risk_free, "index", None), "tz", None) is not None:
        risk_free = risk_free.tz_localize(None)
    if getattr(getattr(benchmark, "index", None), "tz", None) is not None:
        benchmark = benchmark.tz_localize(None)
    if risk_free is not None:
        track.risk_free = risk_free
    elif len(times) % 2 == 0:
        track.risk_free = None          # what TradingEnv.backtest stores when the caller gives no risk-free series
        res.tag("track-record:risk_free=None")
    if benchmark is not None:
        track.benchmark = benchmark
    elif len(times) % 3 == 0:
        track.benchmark = None          # idem for the benchmark
    asset = ETF("C16")
    for t, v in zip(times, levels):
        reb = Rebalancing(contracts=[asset], allocation=[0.5], time=t)
        reb.profit_on_idle_cash = 0.0
        reb.trades = []
        reb.context_pre = Context(nlv=float(v), weights={asset: 0.5}, values={asset: 0.5 * float(v)},
                                  nr_contracts={asset: 1.0}, margins={})
        reb.context_post = reb.context_pre
        track._checkpoint(reb)
    sheet = track.tearsheet()
    compare_tearsheet(res, what, sheet, refs[:1], rows or TEARSHEET_ROWS)
    return sheet


# =========================================================================================== PART window
# tearsheet(risk_free=..., benchmark=...) "ensures that we analyse data over the same time span": every row is a
# metric of the rows the strategy, the risk-free and the benchmark have in common. Here the three series cover
# different stretches of one time grid and grow differently outside the common stretch.

RF_CAGR_ROW = [(("Context", "Risk-free CAGR"), "risk_free_cagr")]


def run_window(case):
    res = Result()
    times, frame, arrays, rf_obj, rf_arr, bm_obj, bm_arr = build(case)
    tag_base(res, case, times, arrays)
    n = len(times)
    w = case["win"]
    arrays = [np.asarray(a, dtype=float) for a in arrays]
    multi = isinstance(frame, pd.DataFrame) and frame.shape[1] > 1

    def span(cut):
        return cut[0] % n, n - cut[1] % n

    def common(*spans):
        lo, hi = max(x[0] for x in spans), min(x[1] for x in spans)
        ok = hi - lo >= 2 and (times[hi - 1] - times[lo]).days >= 1
        return (lo, hi) if ok else None

    sp = {"s": span(w["s"]), "rf": span(w["rf"]), "bm": span(w["bm"])}
    if common(sp["s"], sp["rf"]) is None or (bm_obj is not None and common(sp["s"], sp["rf"], sp["bm"]) is None):
        sp = {k: (0, n) for k in sp}             # no valid common stretch: all on the same index
    strat = frame.iloc[sp["s"][0]:sp["s"][1]]
    rf_long = rf_obj.iloc[sp["rf"][0]:sp["rf"][1]]
    bm_long = bm_obj.iloc[sp["bm"][0]:sp["bm"][1]] if bm_obj is not None else None
    for who in ("rf", "bm"):
        if who == "bm" and bm_obj is None:
            continue
        a, b = sp[who], sp["s"]
        res.tag("%s:%s" % (who, "same-index" if a == b else
                           "+".join(x for x, c in (("starts-before", a[0] < b[0]), ("ends-after", a[1] > b[1]),
                                                   ("starts-after", a[0] > b[0]), ("ends-before", a[1] < b[1])) if c)
                           + "-the-strategy"))

    def reference(lo, hi, cols, with_bm):
        ct = times[lo:hi]
        rc = ref_cagr(ct, ref_collapse(ct, rf_arr[lo:hi])[1])
        rf_q = Q(rc, 1e-13 * (1.0 + abs(rc)) if math.isfinite(rc) else 0.0)
        refs = [ref_metrics(ct, a[lo:hi], [0.05, 0.02], rf_q, bm_arr[lo:hi] if with_bm else None) for a in cols]
        for r in refs:
            r["risk_free_cagr"] = rf_q
        return ct, refs

    def span_rows(sheet, ct, what):
        got = (sheet.loc[("Context", "From")].iloc[0], sheet.loc[("Context", "To")].iloc[0])
        if got != (ct[0].date(), ct[-1].date()):
            res.fail("%s analyses %s..%s, the common time span is %s..%s" % (what, got[0], got[1], ct[0].date(), ct[-1].date()))

    # NDFrame.tearsheet
    use_bm = bm_obj is not None and not multi
    lo, hi = common(sp["s"], sp["rf"], sp["bm"]) if use_bm else common(sp["s"], sp["rf"])
    if use_bm and len(ref_collapse(times[lo:hi], arrays[0][lo:hi])[0]) <= 2:
        use_bm = False                            # (benchmark block of the tearsheet: more than one return)
        lo, hi = common(sp["s"], sp["rf"])
    ct, refs = reference(lo, hi, arrays, use_bm)
    res.tag("tearsheet+rf" + ("+bm" if use_bm else ""))
    kwargs = {"benchmark": bm_long} if use_bm else {}
    sheet = strat.tearsheet(risk_free=rf_long, **kwargs)
    compare_tearsheet(res, "tearsheet(series of different spans)", sheet, refs,
                      TEARSHEET_ROWS + RF_CAGR_ROW + (TEARSHEET_BM_ROWS if use_bm else []))
    span_rows(sheet, ct, "tearsheet")

    # TrackRecord.tearsheet with the user's series attached (TradingEnv.backtest)
    if w["track"] and not res.violations:
        use_bm = bm_obj is not None
        lo, hi = common(sp["s"], sp["rf"], sp["bm"]) if use_bm else common(sp["s"], sp["rf"])
        if use_bm and len(ref_collapse(times[lo:hi], arrays[0][lo:hi])[0]) <= 2:
            use_bm = False
            lo, hi = common(sp["s"], sp["rf"])
        ct, refs = reference(lo, hi, arrays[:1], use_bm)
        res.tag("track-record+rf" + ("+bm" if use_bm else ""))
        s_lo, s_hi = sp["s"]
        sheet = check_track_record(res, times[s_lo:s_hi], arrays[0][s_lo:s_hi], refs, risk_free=rf_long,
                                   benchmark=bm_long if use_bm else None,
                                   rows=TEARSHEET_ROWS + RF_CAGR_ROW + (TEARSHEET_BM_ROWS if use_bm else []),
                                   what="TrackRecord.tearsheet(series of different spans)")
        span_rows(sheet, ct, "TrackRecord.tearsheet")
    return res


# =========================================================================================== PART scale

SCALAR_METRICS = ["cagr", "overall_return", "volatility", "max_drawdown", "downside_volatility",
                  "upside_volatility", "martin_risk", "nr_years"]
VECTOR_METRICS = ["simple_returns", "log_returns", "cumulative_return", "drawdown"]
RATIO_METRICS = ["excess_cagr", "sharpe_ratio", "sortino_ratio", "calmar_ratio", "martin_ratio"]
BM_METRICS = [("excess_returns", "excess_returns"), ("tracking_error", "tracking_error"),
              ("information_ratio", "information_ratio"), ("excess_cagr", "excess_cagr_bm")]


def run_scale(case):
    res = Result()
    times, frame, arrays, rf_obj, rf_arr, bm_obj, bm_arr = build(case)
    ndaily = tag_base(res, case, times, arrays)
    sc = case["scale"]
    pow2 = sc["pow2"]
    c = 2.0 ** sc["k"] if pow2 else float(sc["c"])
    c_rf = 2.0 ** sc["k_rf"] if pow2 else float(sc["c_rf"])
    c_bm = 2.0 ** sc["k_bm"] if pow2 else float(sc["c_bm"])
    rel = 1e-12 if pow2 else 1e-7
    res.tag("c:2^k" if pow2 else "c:<1" if c < 1 else "c:>1")
    q = case.get("q")
    qv = 0.025 if q is None else q

    # the reference supplies magnitudes (absolute tolerances), denominators and the ES indifference band only
    if rf_arr is not None:
        rc = ref_cagr(times, ref_collapse(times, rf_arr)[1])
        rf_q = Q(rc, 1e-13 * (1.0 + abs(rc)) if math.isfinite(rc) else 0.0)
    elif rf_obj is not None:
        rf_q = Q(float(rf_obj))
    else:
        rf_q = None
    refs = [ref_metrics(times, a, [qv], rf_q, bm_arr) for a in arrays]
    amp = 1.0 if pow2 else 1e4      # absolute slack: 1e-13 x magnitude for 2^k, 1e-9 x magnitude otherwise

    def compare(what, a, b, key):
        try:
            ca, la = columns_of(a, frame)
            cb, lb = columns_of(b, scaled)
        except _Shape as exc:
            res.fail("%s returned an object of unexpected shape (%s)" % (what, exc))
            return
        if la != lb:
            res.fail("%s: labels change under scaling" % what)
        for j, (u, v) in enumerate(zip(ca, cb)):
            ref = refs[j][key]
            if ref.skip == "denominator<1e-12":
                exclude(res, ref.skip)
                continue
            if key in ("downside_volatility", "upside_volatility", "sortino_ratio") and not pow2 and refs[j]["sign_fragile"]:
                exclude(res, "sign-band")
                continue
            if key[0] == "expected_shortfall" and not pow2 and refs[j][("es_fragile", qv)]:
                exclude(res, "es-band")
                continue
            extra = amp * ref.extra
            ok = same_vec(u, v, rel, extra) if isinstance(u, np.ndarray) else same(u, v, rel, extra)
            if not ok:
                res.fail("%s column %d changes when levels are multiplied by %r: %s -> %s" % (what, j, c, fmt(u), fmt(v)))

    # every metric of the original first; the scaled objects are then obtained FROM the measured ones (`obj * c`),
    # so whatever a metric leaves on an object or pandas hands over to derived objects takes part
    qa = () if q is None else (q,)
    plan = [(name + "()", name, "self", name) for name in VECTOR_METRICS + SCALAR_METRICS]
    plan += [("%s(%s)" % (name, "" if q is None else repr(q)), name, "q", (name, qv))
             for name in ("value_at_risk", "expected_shortfall")]
    plan += [(name, name, "rf", name) for name in RATIO_METRICS]
    if bm_obj is not None:
        plan += [(name + "(benchmark)", name, "bm", key) for name, key in BM_METRICS]

    def args_for(kind, rf, bm):
        return {"self": (), "q": qa, "rf": () if rf is None else (rf,), "bm": (bm,)}[kind]

    first = [getattr(frame, name)(*args_for(kind, rf_obj, bm_obj)) for _, name, kind, _ in plan]
    scaled = frame * c
    rf_s = rf_obj * c_rf if rf_arr is not None else rf_obj
    bm_s = bm_obj * c_bm if bm_obj is not None else None
    for (what, name, kind, key), a in zip(plan, first):
        b = getattr(scaled, name)(*args_for(kind, rf_s, bm_s))
        if name == "nr_years":
            if a != b:
                res.fail("nr_years changes under scaling")
            continue
        compare(what, a, b, key)
    # the relation alone cannot see a scaled object that is measured through the original's daily levels
    got, _ = columns_of(scaled.level(), scaled)
    for j, col in enumerate(got):
        if not same_vec(col, refs[j]["level"].v * c, 1e-12):
            res.fail("level() of (obj * %r) column %d is %s, its daily levels are %s" % (c, j, fmt(col), fmt(refs[j]["level"].v * c)))
    return res


# =========================================================================================== PART derived
# Metrics are functions of the values an object holds at the moment of the call. Here an object is measured,
# then a second object is obtained from it with pandas operations (or the same object is edited in place) and
# measured against the reference of ITS OWN values; finally a benchmark / risk-free obtained from measured
# objects is used. Anything a metric leaves behind on the object or hands over to derived objects shows up here.

def cycle(pattern, n):
    return np.array([float(pattern[i % len(pattern)]) for i in range(n)], dtype=float)


def first_column(obj):
    return obj if isinstance(obj, pd.Series) else obj.iloc[:, 0]


def edit_rows(obj, arrays, rows, vals):
    """In-place `iloc` assignment of a few rows (new value = old value x factor); mirrors it on the plain arrays."""
    n = len(obj)
    arrays = [np.array(a, dtype=float) for a in arrays]
    for k, (r, v) in enumerate(zip(rows, vals)):
        p = r % n
        if isinstance(obj, pd.DataFrame):
            j = (r // 7 + k) % obj.shape[1]
            new = float(arrays[j][p] * v)
            obj.iloc[p, j] = new
            arrays[j][p] = new
        else:
            new = float(arrays[0][p] * v)
            obj.iloc[p] = new
            arrays[0][p] = new
    return arrays


def run_derived(case):
    res = Result()
    times, frame, arrays, rf_obj, rf_arr, bm_obj, bm_arr = build(case)
    ndaily = tag_base(res, case, times, arrays)
    arrays = [np.asarray(a, dtype=float) for a in arrays]
    d = case["derive"]
    op = d["op"]
    q = case.get("q")
    n = len(times)

    # 1. the original object (and its risk-free / benchmark) is measured
    measure(res, frame, times, arrays, rf_obj, rf_arr, bm_obj, bm_arr, q, ndaily, stage="[original] ")
    if res.violations:
        return res

    # 2. a second object obtained from the first one
    times2, rf2_obj, rf2_arr, bm2_obj, bm2_arr = times, rf_obj, rf_arr, bm_obj, bm_arr
    c = float(d["c"])
    if op == "slice":
        lo, hi = d["lo"] % n, n - (d["hi"] % n)
        if hi - lo < 2 or (times[hi - 1] - times[lo]).days < 1:
            op = "mul"
    if op == "mul":
        obj2, arrays2 = frame * c, [a * c for a in arrays]
    elif op == "mulm":
        obj2, arrays2 = frame.mul(c), [a * c for a in arrays]
    elif op == "div":
        obj2, arrays2 = frame / c, [a / c for a in arrays]
    elif op == "wiggle":
        w = cycle(d["wiggle"], n)
        ws = pd.Series(w, index=frame.index)
        obj2 = frame * ws if isinstance(frame, pd.Series) else frame.mul(ws, axis=0)
        arrays2 = [a * w for a in arrays]
    elif op == "copy_assign":
        obj2 = frame.copy()
        arrays2 = edit_rows(obj2, arrays, d["rows"], d["vals"])
    elif op == "inplace":
        obj2 = frame
        arrays2 = edit_rows(obj2, arrays, d["rows"], d["vals"])
    elif op == "slice":
        obj2, arrays2, times2 = frame.iloc[lo:hi], [a[lo:hi] for a in arrays], times[lo:hi]
        if rf_arr is not None:
            rf2_obj, rf2_arr = rf_obj.iloc[lo:hi], rf_arr[lo:hi]
        if bm_arr is not None:
            bm2_obj, bm2_arr = bm_obj.iloc[lo:hi], bm_arr[lo:hi]
    else:
        raise ValueError(op)
    res.tag("op:" + op)
    dates2, _ = ref_collapse(times2, arrays2[0])
    ndaily2 = len(dates2)
    collapsed = ndaily2 < len(times2)
    if collapsed:
        res.tag("op:%s/intraday-collapsed" % op)
    got = np.asarray(obj2.to_numpy(), dtype=float)
    want = arrays2[0] if got.ndim == 1 else np.column_stack(arrays2)
    if got.shape != want.shape or not np.array_equal(got, want):
        raise AssertionError("harness: the derived object does not hold the expected values")
    stage = "[%s after measuring the original] " % {
        "mul": "obj * %r" % c, "mulm": "obj.mul(%r)" % c, "div": "obj / %r" % c, "wiggle": "obj * series",
        "copy_assign": "obj.copy() with rows reassigned", "inplace": "same object, rows reassigned in place",
        "slice": "obj.iloc[a:b]"}[op]
    measure(res, obj2, times2, arrays2, rf2_obj, rf2_arr, bm2_obj, bm2_arr, q, ndaily2, stage=stage)
    if res.violations:
        return res

    # 3. a benchmark / risk-free obtained from objects that have been measured
    rel = d["relative"]
    if rel == "none":
        return res
    n2 = len(times2)
    bm3_obj, bm3_arr, rf3_obj, rf3_arr = bm2_obj, bm2_arr, rf2_obj, rf2_arr
    if rel in ("bm-from-self", "both"):
        wb = cycle(d["bm_wiggle"], n2)
        bm3_obj = (first_column(obj2) * pd.Series(wb, index=obj2.index)).rename("BM")
        bm3_arr = arrays2[0] * wb
        res.tag("benchmark:measured-series*wiggle" + ("/intraday-collapsed" if collapsed else ""))
    elif rel == "bm-edited" and bm2_arr is not None:
        bm3_obj = bm2_obj
        bm3_arr = edit_rows(bm3_obj, [bm2_arr], d["rows"], d["vals"])[0]
        res.tag("benchmark:edited-in-place" + ("/intraday-collapsed" if collapsed else ""))
    if rel in ("rf-from-rf", "both") and rf2_arr is not None:
        wr = cycle(d["rf_wiggle"], n2)
        rf3_obj = rf2_obj.mul(pd.Series(wr, index=rf2_obj.index), axis=0)
        rf3_arr = np.asarray(rf2_arr, dtype=float) * wr
        res.tag("risk-free:measured-series*wiggle" + ("/intraday-collapsed" if collapsed else ""))
    if bm3_obj is bm2_obj and rf3_obj is rf2_obj and rel != "bm-edited":
        return res
    measure(res, obj2, times2, arrays2, rf3_obj, rf3_arr, bm3_obj, bm3_arr, q, ndaily2,
            stage="[benchmark / risk-free obtained from measured objects] ")
    return res


# =========================================================================================== PART reject

UNARY = ["validate", "level", "simple_returns", "log_returns", "cagr", "cumulative_return", "overall_return",
         "volatility", "drawdown", "max_drawdown", "value_at_risk", "expected_shortfall", "downside_volatility",
         "upside_volatility", "martin_risk", "excess_cagr", "sharpe_ratio", "sortino_ratio", "calmar_ratio",
         "martin_ratio", "tearsheet"]
WITH_RF = ["excess_cagr", "sharpe_ratio", "sortino_ratio", "calmar_ratio", "martin_ratio"]
WITH_BM = ["excess_returns", "tracking_error", "information_ratio", "excess_cagr"]
VALUE_DEFECTS = ("nan", "nonpos")


def corrupt(obj, spec):
    """One defect applied to a valid Series / DataFrame. Returns (corrupted object, description)."""
    kind = spec["kind"]
    n = len(obj)
    p = spec["pos"] % n
    out = obj.copy()
    if kind in VALUE_DEFECTS:
        value = float("nan") if kind == "nan" else float(spec["value"])
        out = out.astype(float)
        if isinstance(out, pd.DataFrame):
            out.iloc[p, spec["col"] % out.shape[1]] = value
        else:
            out.iloc[p] = value
        return out, "%s at row %d" % ("NaN" if kind == "nan" else "value %r" % value, p)
    idx = list(obj.index)
    if kind == "dup":
        p = spec["pos"] % (n - 1)
        idx[p + 1] = idx[p]
        out.index = pd.DatetimeIndex(idx)
        return out, "timestamp of row %d repeated in row %d" % (p, p + 1)
    if kind == "swap":
        j = (p + 1 + spec["pos2"] % (n - 1)) % n
        order = list(range(n))
        order[p], order[j] = order[j], order[p]
        return obj.iloc[order], "rows %d and %d swapped" % (p, j)
    if kind == "nat":
        idx[p] = pd.NaT
        out.index = pd.DatetimeIndex(idx)
        return out, "NaT timestamp at row %d" % p
    if kind == "range":
        return obj.reset_index(drop=True), "RangeIndex"
    if kind == "str":
        out.index = pd.Index([t.strftime("%Y-%m-%d %H:%M:%S") for t in idx])
        return out, "string index"
    if kind == "intidx":
        out.index = pd.Index([int(t.value) for t in idx], dtype="int64")
        return out, "integer (epoch) index"
    raise ValueError(kind)


def run_reject(case):
    res = Result()
    times, frame, arrays, rf_obj, rf_arr, bm_obj, bm_arr = build(case)
    tag_base(res, case, times, arrays)
    spec = case["corrupt"]
    target = spec["target"]
    res.tag("defect:" + spec["kind"], "target:" + target, "defect:%s/%s" % (spec["kind"], target))
    calls = []        # (description, callable)

    def add(obj, name, *args, label=None):
        calls.append((label or name, lambda: getattr(obj, name)(*args)))

    if target == "self":
        bad, how = corrupt(frame, spec)
        for name in UNARY:
            add(bad, name)
        if rf_obj is not None:
            for name in WITH_RF:
                add(bad, name, rf_obj, label=name + "(risk_free)")
        if bm_obj is not None:
            for name in WITH_BM:
                add(bad, name, bm_obj, label=name + "(benchmark)")
        who = "the series itself"
    elif target == "rf":
        bad, how = corrupt(rf_obj, spec)
        for name in WITH_RF:
            add(frame, name, bad, label=name + "(corrupted risk_free)")
        if spec["kind"] in VALUE_DEFECTS:
            calls.append(("tearsheet(corrupted risk_free)", lambda: frame.tearsheet(risk_free=bad)))
        add(bad, "validate", label="risk_free.validate")
        who = "the risk-free series"
    else:
        bad, how = corrupt(bm_obj, spec)
        for name in WITH_BM:
            add(frame, name, bad, label=name + "(corrupted benchmark)")
        if spec["kind"] in VALUE_DEFECTS and not (isinstance(frame, pd.DataFrame) and frame.shape[1] > 1):
            calls.append(("tearsheet(corrupted benchmark)", lambda: frame.tearsheet(benchmark=bad)))
        add(bad, "validate", label="benchmark.validate")
        who = "the benchmark"
    for label, fn in calls:
        try:
            out = fn()
        except Exception as exc:  # noqa  any exception is a rejection
            if not isinstance(exc, ValueError):
                res.tag("rejected-by:" + type(exc).__name__)
            continue
        res.fail("%s returned %s although %s has %s" % (label, short(out), who, how))
    return res


def short(out):
    if isinstance(out, (pd.Series, pd.DataFrame)):
        return "a %s of shape %s" % (type(out).__name__, out.shape)
    return repr(out)[:60]


# =========================================================================================== GENERATORS

KINDS = ["D", "B", "irr", "intra"]
FIRSTS = [1.0, 100.0, 0.01, 2500.0, 37.5, 1e-3, 1e5]
EXTREME = [0.5, 2.0, 0.25, 4.0, 0.1, 10.0, 0.9, 1.25, 0.02, 50.0, 0.999, 3.0]
small_move = st.integers(-50000, 50000).map(lambda k: 1.0 + k / 1e6)


def clamp_moves(moves, first):
    """Keep the level within 6 decades of its start whatever Hypothesis draws: levels stay finite and
    level / running max >= 1e-12, so a drawdown never rounds to -1."""
    out, cum = [], 0.0
    for m in moves:
        l = math.log10(m)
        if abs(cum + l) > 6.0:
            m = 1.0 / m if abs(cum - l) <= 6.0 else 1.0
            l = math.log10(m)
        cum += l
        out.append(m)
    return out


@st.composite
def move_lists(draw, variant, k):
    if variant == "bounded":
        elem = small_move
    elif variant == "heavy":
        elem = st.one_of(small_move, small_move, small_move, st.sampled_from(EXTREME))
    else:  # constant stretches
        elem = st.one_of(st.just(1.0), st.just(1.0), small_move)
    return draw(st.lists(elem, min_size=k, max_size=k))


@st.composite
def time_offsets(draw, kind, n):
    """-> start [y, m, d, h, mi], minute offsets (strictly increasing, last - first >= 1 day)."""
    y, mo, d = draw(st.integers(1995, 2030)), draw(st.integers(1, 12)), draw(st.integers(1, 28))
    tod = draw(st.sampled_from([0, 0, 0, 570, 960, 1439]))
    if kind == "D":
        return [y, mo, d, tod // 60, tod % 60], [1440 * i for i in range(n)]
    if kind == "B":
        day = datetime(y, mo, d)
        days = []
        while len(days) < n:
            if day.weekday() < 5:
                days.append(day)
            day += timedelta(days=1)
        return ([days[0].year, days[0].month, days[0].day, tod // 60, tod % 60],
                [1440 * (x - days[0]).days for x in days])
    if kind == "DI":
        # a long daily head followed by an intraday tail (a record that was daily for years and is sampled intraday since)
        h = draw(st.integers(max(1, n // 2), max(1, n - 4)))
        out = [1440 * i for i in range(h)]
        day, left = h, n - h
        while left > 0:
            k = min(left, draw(st.integers(2, 4)))
            mins = sorted(draw(st.lists(st.integers(0, 1439), min_size=k, max_size=k, unique=True)))
            out.extend(1440 * day + m for m in mins)
            day += 1
            left -= k
        out = sorted(set(out))
        while len(out) < n:
            out.append(out[-1] + 1440)
        return [y, mo, d, tod // 60, tod % 60], out
    if kind == "irr":
        gaps = draw(st.lists(st.one_of(st.integers(1, 5), st.integers(1, 40), st.sampled_from([365, 400])),
                             min_size=n - 1, max_size=n - 1))
        off, out = 0, [0]
        for g in gaps:
            off += 1440 * g
            out.append(off)
        return [y, mo, d, tod // 60, tod % 60], out
    # intraday: 1-5 observations per day, at least two dates, day gaps 1..3
    out, day, left = [], 0, n
    while left > 0:
        first_day = not out
        kmax = min(5, left - 1) if first_day else min(5, left)
        k = draw(st.integers(1, max(1, kmax)))
        minutes = sorted(draw(st.lists(st.integers(0, 1439), min_size=k, max_size=k, unique=True)))
        if not first_day:
            day += draw(st.integers(1, 3))
        out.extend(1440 * day + m for m in minutes)
        left -= k
    if out[-1] - out[0] < 1440:
        # push the last date one day further: the span must be at least one day
        last_day = out[-1] // 1440
        out = [o + 1440 if o // 1440 == last_day else o for o in out]
    base = out[0]
    return [y, mo, d, base // 60, base % 60], [o - base for o in out]


@st.composite
def base_cases(draw, tier="quick", need_rf=False, need_bm=False, allow_float_rf=True, kinds=KINDS, sizes=None):
    kind = draw(st.sampled_from(kinds))
    nmax = 400
    n = draw(sizes) if sizes is not None else draw(st.one_of(st.integers(2, 6), st.integers(2, 40), st.integers(2, 40), st.integers(2, 40),
                       st.integers(3, 12), st.integers(41, nmax)))
    start, offs = draw(time_offsets(kind, n))
    variant = draw(st.sampled_from(["bounded", "bounded", "heavy", "const"]))
    ncols = draw(st.sampled_from([0, 0, 1, 2, 3]))          # 0 = Series
    cols = []
    for _ in range(max(1, ncols)):
        first = draw(st.sampled_from(FIRSTS))
        cols.append({"first": first, "moves": clamp_moves(draw(move_lists(variant, n - 1)), first)})
    case = {"kind": kind, "start": start, "t": offs, "variant": variant,
            "frame": "series" if ncols == 0 else "df", "cols": cols,
            "int": draw(st.sampled_from([False] * 7 + [True])) and variant != "heavy"}
    rf_form = draw(st.sampled_from(["series", "df1"] + (["float"] if allow_float_rf else []) +
                                   ([] if need_rf else ["none", "none"])))
    if rf_form == "none":
        case["rf"] = None
    elif rf_form == "float":
        case["rf"] = {"form": "float", "value": draw(st.sampled_from([0.0, 0.02, -0.005, 0.5]))}
    else:
        pattern = draw(st.lists(st.integers(0, 300).map(lambda k: 1.0 + k / 1e6), min_size=1, max_size=6))
        moves = [pattern[i % len(pattern)] for i in range(n - 1)]
        case["rf"] = {"form": rf_form, "first": draw(st.sampled_from([1.0, 100.0])), "moves": moves}
    bm_form = draw(st.sampled_from(["series", "df1"] + ([] if need_bm else ["none", "none"])))
    if bm_form == "none":
        case["bm"] = None
    else:
        mode = draw(st.sampled_from(["own", "near", "near", "same"]))
        if mode == "own":
            moves = clamp_moves(draw(move_lists("bounded", n - 1)), 1.0)
        elif mode == "same":
            moves = list(cols[0]["moves"])
        else:
            bumps = draw(st.lists(st.integers(-200, 200), min_size=1, max_size=12))
            moves = [max(m + bumps[i % len(bumps)] / 1e6, 1e-3) for i, m in enumerate(cols[0]["moves"])]
        case["bm"] = {"form": bm_form, "mode": mode, "first": draw(st.sampled_from([1.0, 50.0])), "moves": moves}
    case["tz_hours"] = draw(st.sampled_from([None] * 5 + [-5, 9, -11]))
    case["q"] = draw(st.one_of(st.none(), st.none(),
                               st.sampled_from([0.05, 0.02, 0.5, 0.25, 0.125, 0.0625, 0.03125, 0.75]),
                               st.sampled_from([0.5, 0.25, 0.125]),
                               st.integers(1, 999).map(lambda k: k / 1000.0)))
    return case


@st.composite
def definition_cases(draw, tier="quick"):
    case = draw(base_cases(tier))
    case["tearsheet"] = draw(st.sampled_from([True, False, False]))
    case["track"] = draw(st.sampled_from([True, False, False, False]))
    return case


@st.composite
def long_cases(draw, tier="quick"):
    """Series of 520-1500 rows (the default sizes stop at 400): daily, irregular, intraday, and a daily head with an intraday tail."""
    case = draw(base_cases(tier, kinds=["DI", "DI", "intra", "D", "irr"], sizes=st.integers(520, 1500)))
    case["tearsheet"] = draw(st.sampled_from([True, False]))
    case["track"] = False
    return case


@st.composite
def scale_cases(draw, tier="quick"):
    case = draw(base_cases(tier))
    pow2 = draw(st.booleans())
    ks = st.integers(-20, 20).filter(lambda k: k != 0)
    us = st.floats(-6.0, 6.0).map(lambda u: 10.0 ** u)
    if pow2:
        case["scale"] = {"pow2": True, "k": draw(ks), "k_rf": draw(st.integers(-8, 8)), "k_bm": draw(st.integers(-8, 8))}
    else:
        case["scale"] = {"pow2": False, "c": draw(us), "c_rf": draw(us), "c_bm": draw(us)}
    return case


OPS = ["mul", "mulm", "div", "wiggle", "wiggle", "copy_assign", "copy_assign", "inplace", "inplace", "slice"]
wiggles = st.lists(st.integers(-200, 200).map(lambda k: 1.0 + k / 1000.0), min_size=1, max_size=8)


@st.composite
def derived_cases(draw, tier="quick"):
    case = draw(base_cases(tier, kinds=["intra", "intra", "intra", "intra", "D", "B", "irr"]))
    case["int"] = False          # rows are reassigned with floats
    case["derive"] = {
        "op": draw(st.sampled_from(OPS)),
        "c": draw(st.sampled_from([0.5, 2.0, 3.0, 0.1, 1.5, 1000.0, 0.37])),
        "wiggle": draw(wiggles), "bm_wiggle": draw(wiggles),
        "rf_wiggle": draw(st.lists(st.integers(-50, 50).map(lambda k: 1.0 + k / 1e5), min_size=1, max_size=4)),
        "rows": draw(st.lists(st.integers(0, 2799), min_size=1, max_size=4)),
        "vals": draw(st.lists(st.sampled_from([0.5, 0.8, 0.9, 0.99, 1.01, 1.1, 1.25, 2.0]), min_size=4, max_size=4)),
        "lo": draw(st.integers(0, 5)), "hi": draw(st.integers(0, 5)),
        "relative": draw(st.sampled_from(["none", "bm-from-self", "bm-from-self", "bm-edited", "rf-from-rf", "both"])),
    }
    return case


@st.composite
def window_cases(draw, tier="quick"):
    sizes = st.one_of(st.integers(4, 12), st.integers(6, 40), st.integers(6, 40), st.integers(41, 160))
    case = draw(base_cases(tier, need_rf=True, allow_float_rf=False, sizes=sizes))
    case["int"] = False
    n = len(case["t"])
    cut = st.one_of(st.just(0), st.integers(0, max(1, n // 3)))
    win = {"s": [draw(cut), draw(cut)], "rf": [draw(cut), draw(cut)], "bm": [draw(cut), draw(cut)],
           "track": draw(st.booleans())}
    case["win"] = win
    # different growth outside the stretch the strategy covers
    lo, hi = win["s"][0], n - win["s"][1]
    rf_out = draw(st.sampled_from([1.0005, 1.002, 0.999, 1.01]))
    case["rf"]["moves"] = [m if lo <= i and i + 1 < hi else rf_out for i, m in enumerate(case["rf"]["moves"])]
    if case["bm"] is not None:
        bm_out = draw(st.sampled_from([1.01, 0.99, 1.05, 0.97]))
        case["bm"]["moves"] = [m if lo <= i and i + 1 < hi else m * bm_out for i, m in enumerate(case["bm"]["moves"])]
    return case


DEFECTS = ["nan", "nonpos", "dup", "swap", "nat", "range", "str", "intidx"]


@st.composite
def reject_cases(draw, tier="quick"):
    target = draw(st.sampled_from(["self", "self", "bm", "rf"]))
    case = draw(base_cases(tier, need_rf=target == "rf", need_bm=target == "bm", allow_float_rf=target != "rf"))
    case["corrupt"] = {
        "kind": draw(st.sampled_from(DEFECTS)), "target": target,
        "pos": draw(st.integers(0, 399)), "pos2": draw(st.integers(0, 399)), "col": draw(st.integers(0, 2)),
        "value": draw(st.sampled_from([0.0, -0.0, -1.5, -1e-9, -100.0])),
    }
    return case


def probe_tracking_error_two_levels():
    """Deterministic re-demonstration of the candidate finding (for known_findings.json, if it is registered)."""
    idx = pd.date_range("2019-01-01", periods=2, freq="D")
    s = pd.Series([1.0, 1.01], idx, name="S")
    b = pd.Series([1.0, 1.02], idx, name="BM")
    try:
        s.tracking_error(b)
    except AttributeError as exc:
        return "tracking_error on two daily levels raises AttributeError: %s" % exc
    return None


FINDING_PROBES = {"D11": probe_tracking_error_two_levels}

# =========================================================================================== PART calendars
# A benchmark observed on its own calendar (some of the strategy's dates missing, some extra ones). Whatever a
# library does on dates the two series do not share, one entry is unambiguous: when both series have an observation
# on date d AND on the same preceding date, the excess return on d is r_strategy(d) - r_benchmark(d).

@st.composite
def calendar_cases(draw, tier="quick"):
    n = draw(st.integers(6, 40))
    gaps = draw(st.lists(st.sampled_from([1, 1, 2, 3, 4]), min_size=n - 1, max_size=n - 1))
    days = [0]
    for g in gaps:
        days.append(days[-1] + g)
    drop = sorted(set(draw(st.lists(st.integers(0, n - 1), min_size=0, max_size=3))))
    free = [d for d in range(days[-1]) if d not in days]
    k_ins = draw(st.sampled_from([len(drop), len(drop), len(drop), 0, 1, 2]))      # mostly: same number of observations
    ins = sorted(set(draw(st.lists(st.sampled_from(free), min_size=min(k_ins, len(free)), max_size=min(k_ins, len(free)))))) if free and k_ins else []
    bm_days = sorted((set(days) - {days[i] for i in drop}) | set(ins))
    if len(bm_days) < 3:
        bm_days = list(days)
    ncols = draw(st.sampled_from([0, 0, 1, 2]))
    cols = [{"first": draw(st.sampled_from([1.0, 100.0, 37.5])), "moves": draw(move_lists("bounded", n - 1))} for _ in range(max(1, ncols))]
    bm = {"first": draw(st.sampled_from([1.0, 50.0])), "moves": draw(move_lists("bounded", len(bm_days) - 1))}
    return {"start": [draw(st.integers(1995, 2030)), draw(st.integers(1, 12)), draw(st.integers(1, 28))], "days": days, "bm_days": bm_days,
            "frame": "series" if ncols == 0 else "df", "cols": cols, "bm": bm, "bm_form": draw(st.sampled_from(["series", "df1"]))}


def run_calendars(case):
    res = Result()
    t0 = datetime(*case["start"])
    times = [t0 + timedelta(days=d) for d in case["days"]]
    btimes = [t0 + timedelta(days=d) for d in case["bm_days"]]
    arrays = [build_levels(c) for c in case["cols"]]
    barr = build_levels(case["bm"])
    idx = pd.DatetimeIndex(times)
    frame = pd.Series(arrays[0], index=idx, name="x") if case["frame"] == "series" else pd.DataFrame({COLS[j]: a for j, a in enumerate(arrays)}, index=idx)
    bm_obj = pd.Series(barr, index=pd.DatetimeIndex(btimes), name="BM")
    if case["bm_form"] == "df1":
        bm_obj = bm_obj.to_frame()
    got = frame.excess_returns(bm_obj)
    try:
        cols, labels = columns_of(got, frame)
    except _Shape as exc:
        res.fail("excess_returns(benchmark on its own calendar) returned an object of unexpected shape (%s)" % exc)
        return res
    labels = [x.date() if hasattr(x, "date") else x for x in labels]
    bpos = {d: i for i, d in enumerate(case["bm_days"])}
    checked = shifted = 0
    for i in range(1, len(times)):
        d, dprev = case["days"][i], case["days"][i - 1]
        j = bpos.get(d)
        if j is None or j == 0 or case["bm_days"][j - 1] != dprev:
            continue
        if j != i:
            shifted += 1
        day = times[i].date()
        if day not in labels:
            res.fail("excess_returns has no entry for %s although strategy and benchmark are both observed on it and on the preceding date" % day)
            return res
        row = labels.index(day)
        for cj, a in enumerate(arrays):
            want = (a[i] / a[i - 1] - 1.0) - (barr[j] / barr[j - 1] - 1.0)
            if not same(cols[cj][row], want, 1e-12, 1e-13):
                res.fail("excess return of column %d on %s is %r; strategy %r -> %r and benchmark %r -> %r over the same two dates give %r" % (
                    cj, day, float(cols[cj][row]), a[i - 1], a[i], barr[j - 1], barr[j], want))
                return res
        checked += 1
    res.nontrivial = checked >= 2 and case["bm_days"] != case["days"]
    res.tag("frame:" + case["frame"], "bm:" + case["bm_form"])
    if case["bm_days"] != case["days"]:
        res.tag("benchmark-on-its-own-calendar")
        if len(case["bm_days"]) == len(case["days"]):
            res.tag("own-calendar-with-the-same-number-of-observations")
    if shifted:
        res.tag("common-dates-at-different-row-positions")
    return res


PARTS = [
    Part("calendars", strategy=lambda tier: calendar_cases(tier), run=run_calendars, quick=400, thorough=10000),
    Part("definitions", strategy=lambda tier: definition_cases(tier), run=run_definitions, quick=1200, thorough=30000),
    Part("long", strategy=lambda tier: long_cases(tier), run=run_definitions, quick=96, thorough=4000),
    Part("scale", strategy=lambda tier: scale_cases(tier), run=run_scale, quick=600, thorough=16000),
    Part("window", strategy=lambda tier: window_cases(tier), run=run_window, quick=300, thorough=8000),
    Part("derived", strategy=lambda tier: derived_cases(tier), run=run_derived, quick=400, thorough=10000),
    Part("reject", strategy=lambda tier: reject_cases(tier), run=run_reject, quick=600, thorough=16000),
]

# ------------------------------------------------------------------------------------------------------------
# Sensitivity record (scratch copy of /repo/tradingenv, one mutant at a time,
# `VERIF_PKG_ROOT=<scratch> ./check C16 --tier quick --no-evidence`, seed 1; all: exit 1 + VIOLATION line)
#
#   DESIGN "must catch"
#   volatility with std(ddof=0) ....................................... caught by definitions (20 s)
#   BDAYS = 365 (252/365 mix-up) ...................................... caught by definitions
#   nr_years = calendar days / 252 .................................... caught by definitions
#   drawdown against the global max (level / level.max() - 1) ......... caught by definitions
#   expected shortfall with `<` instead of `<=` ....................... caught by definitions
#   validate() returns early for DataFrames ........................... caught by reject
#   level(): first instead of last intraday observation ............... caught by definitions
#   own, subtle
#   downside volatility over returns <= 0 ............................. caught by definitions
#   VaR with interpolation="lower" .................................... caught by definitions
#   validate(): values < 0 instead of <= 0 (a zero level accepted) .... caught by reject
#   validate(): duplicate-timestamp test removed ...................... caught by reject
#   martin_risk without the first drawdown (iloc[1:]) ................. caught by definitions
#   nr_calendar_days + 1 (inclusive count) ............................ caught by definitions
#   _parse_rate: overall_return() instead of cagr() of the series ..... caught by definitions
#   cagr from the raw first observation instead of the first daily level (intraday) ... caught by definitions
#   tracking_error with std(ddof=0) ................................... caught by definitions
#   sortino_ratio divided by volatility ............................... caught by definitions and scale
#   run with --part scale only: drawdown = (level - cummax) / (cummax + 1e-9) ......... caught by scale
#   run with --part scale only: returns computed as diff / (previous + 1e-10) in volatility ... caught by scale
#
#   seeded changes (tools/seeded.py check seeded/C16_x/patch.diff C16): C16_A, C16_B, C16_D caught by
#   definitions / reject; C16_C (daily levels memoised in .attrs, inherited by derived objects and kept after
#   in-place edits) was MISSED by the first version (every object was built from fresh arrays and measured once),
#   now caught by derived (every shape-preserving operation) and by scale (level() of obj * c).
#
#   C16_E (martin_risk divided by raw row count) caught by definitions; C16_F (tearsheet no longer trims the
#   risk-free series to the common index) was MISSED while risk-free and benchmark always shared the strategy's
#   index, now caught by window (NDFrame.tearsheet and TrackRecord.tearsheet rows "Risk-free CAGR", "CAGR over cash",
#   Sharpe ...).
#
# Candidate findings on the unchanged tree (see KNOWN_CANDIDATES / FINDING_PROBES):
#   * tracking_error / excess_returns / information_ratio / tearsheet(benchmark=...) raise AttributeError when
#     the data collapse to exactly two daily levels (`other.simple_returns().squeeze()` turns the single
#     return into a scalar); volatility() of the same data returns NaN.
