"""temporary wiring of vlib/c02xy.py (deleted after development)"""
from vlib.runner import Part
from vlib import c02xy

ID = "C02XY_TMP"
RULE = c02xy.RULE
ASSUMPTIONS = c02xy.ASSUMPTIONS
PARTS = [Part("xy", strategy=lambda tier: c02xy.cases(tier), run=c02xy.run_xy, quick=640, thorough=9600)]
