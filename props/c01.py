"""C01 Self-financing trading: NLV moves only by prices, interest, fees and spread."""
from hypothesis import strategies as st

from vlib.runner import Part, Result
from vlib import brokerlab as B

ID = "C01"
RULE = ("ledger: Hypothesis-generated broker histories (1-4 contracts: user-defined spot/margined with multiplier in "
        "{0.1..1000}, ETF, ES, ZN, NK; fees; deposit; constant rate/markup; 1-40 ops among quote / transact(open, add, reduce, close, flip) / "
        "mark-to-market / valuation / rebalance(weights or nr-contracts)); one case in six is dyadic (exact arithmetic). After EVERY op the "
        "broker NLV is compared with the independent ledger deposit + interest - fees + sum M(q*liq - sum dq*acq). "
        "twin: same history (rate 0) run with every spot-like contract swapped for a margined one of the same multiplier and vice versa; "
        "NLV paths must agree. sparse: same histories, but the broker is valued only at the history's own NLV queries and once at the "
        "end (so a quote move followed directly by a trade is not preceded by a valuation). pair: two accounts (separate exchange and "
        "broker objects) trading the SAME contracts with their own histories, stepped in alternation by a generated schedule; each must "
        "satisfy the identity on its own. wide: 5-12 contracts, 40-150 ops, prices 1e-3..1e6, deposits up to 1e10, valued densely or sparsely. Non-trivial = an add to an existing position under bid<ask, or a flip, or a trade in a fully-paid "
        "contract with multiplier != 1.")
ASSUMPTIONS = [
    "money identity tolerance abs <= 1e-9 * (deposit + sum|traded notional| + sum|open notional| + |interest|)",
    "post-trade positions are exactly 0 or >= 1e-5 in absolute value (the documented epsilon=1e-7 snap is by design)",
    "interest amounts are taken from Rebalancing.profit_on_idle_cash (their correctness is C06)",
    "<= 4 contracts, <= 40 ops per history (part wide: 5-12 contracts, 40-150 ops, prices 1e-3..1e6, deposits up to 1e10); 0 < bid <= ask; fixed >= 0, proportional >= 0",
]


def classify(res, stats, case):
    res.nontrivial = bool(stats["adds_under_spread"] or stats["flips"] or stats["mult_spot_trades"])
    if stats["adds_under_spread"]:
        res.tag("add-under-spread")
    if stats["quote_moves_between"]:
        res.tag("add-after-quote-move")
    if stats["flips"]:
        res.tag("flip")
    if stats["mult_spot_trades"]:
        res.tag("fully-paid-multiplier!=1")
    if stats["rebalances"]:
        res.tag("rebalance")
    if stats["insolvent"]:
        res.tag("insolvent-at-some-point")
    if case.get("dyadic"):
        res.tag("dyadic")
    if case.get("rate", 0) > 0:
        res.tag("rate>0")


def run_ledger(case):
    res = Result()
    lab, stats = B.run_history(case, "c01", res)
    classify(res, stats, case)
    return res


def run_twin(case):
    res = Result()
    case = dict(case, rate=0.0, markup=0.0)
    path_a, path_b = [], []
    lab_a, stats = B.run_history(case, "c01", res, swap=False, nlv_path=path_a)
    if res.violations:
        classify(res, stats, case)
        return res
    res_b = Result()
    lab_b, stats_b = B.run_history(case, "c01", res_b, swap=True, nlv_path=path_b)
    for v in res_b.violations:
        res.fail("twin (kinds swapped): " + v)
    if not res.violations:
        scale = max(lab_a.ledger.scale(), lab_b.ledger.scale())
        if len(path_a) != len(path_b):
            res.fail("twin runs executed a different number of ops: %d vs %d" % (len(path_a), len(path_b)))
        for k, (a, b) in enumerate(zip(path_a, path_b)):
            if not abs(a - b) <= 2e-9 * scale:
                res.fail("NLV differs between a spot and a margined contract quoted at the same prices after op #%d: %.12g vs %.12g" % (k, a, b))
                break
    classify(res, stats, case)
    res.tag("twin")
    return res


def run_sparse(case):
    """Same histories, but the account is valued only where the history itself asks for it (and once at the end):
    quote moves followed directly by trades, without an intervening valuation, stay unobserved until later."""
    res = Result()
    lab, stats = B.run_history(case, "c01-sparse", res)
    classify(res, stats, case)
    res.tag("sparse-valuation")
    return res


@st.composite
def pair_cases(draw, tier="quick"):
    """Two accounts over the SAME contract specifications (same symbols, separate exchanges and brokers) with their own
    histories, driven in alternation by a schedule."""
    a = draw(B.histories(tier, margined_bias=True, max_ops=20))
    b = draw(B.histories(tier, margined_bias=True, max_ops=20))
    b["contracts"] = a["contracts"]                        # the same contracts are traded by both accounts
    if a.get("dyadic") != b.get("dyadic"):
        b["dyadic"] = a["dyadic"]
    n = len(a["contracts"])
    for op in b["ops"]:                                    # keep contract indices in range
        if op[0] in ("Q", "QF", "QR", "T") and isinstance(op[1], int):
            op[1] = op[1] % n
        if op[0] == "R":
            op[1] = (list(op[1]) + [None] * n)[:n]
    return {"a": a, "b": b, "schedule": draw(st.lists(st.integers(0, 1), min_size=2, max_size=60))}


def run_pair(case):
    """Each of two accounts living in one process must satisfy the identity on its own."""
    res = Result()
    outs = [{}, {}]
    results = [Result(), Result()]
    gens = [B.history_steps(case["a"], "c01", results[0], outs[0]), B.history_steps(case["b"], "c01", results[1], outs[1])]
    alive = [True, True]
    alternations, last = 0, None
    sched = list(case["schedule"])
    k = 0
    while any(alive):
        pick = sched[k % len(sched)] if k < 4 * len(sched) else (0 if alive[0] else 1)
        k += 1
        if not alive[pick]:
            pick = 1 - pick
        try:
            next(gens[pick])
            if last is not None and last != pick:
                alternations += 1
            last = pick
        except StopIteration:
            alive[pick] = False
        if results[pick].violations:
            res.fail("account %s (driven in alternation with another account trading the same contracts): %s" % ("AB"[pick], results[pick].violations[0]))
            break
    stats = outs[0].get("stats") or {"adds_under_spread": 0, "flips": 0, "mult_spot_trades": 0, "rebalances": 0, "insolvent": False,
                                      "quote_moves_between": 0}
    classify(res, stats, case["a"])
    for r in results:
        for c in r.classes:
            res.tag(c)
    res.nontrivial = alternations >= 2 and all(o.get("stats", {}).get("trades", 0) >= 1 for o in outs)
    res.tag("two-accounts")
    return res


def run_wide(case):
    """Accounts of 5-12 contracts with 40-150 operations, wide price and deposit ranges: dense and sparse valuation."""
    res = run_sparse(case) if len(case["ops"]) % 2 else run_ledger(case)
    res.tag("wide:%d-contracts" % min(12, len(case["contracts"])))
    res.tag("wide")
    return res


PARTS = [
    Part("ledger", strategy=lambda tier: B.histories(tier), run=run_ledger, quick=4000, thorough=240000),
    Part("twin", strategy=lambda tier: B.histories(tier), run=run_twin, quick=1500, thorough=60000),
    Part("sparse", strategy=lambda tier: B.histories(tier), run=run_sparse, quick=4000, thorough=240000),
    Part("pair", strategy=lambda tier: pair_cases(tier), run=run_pair, quick=2000, thorough=80000),
    Part("wide", strategy=lambda tier: B.histories(tier, wide=True), run=run_wide, quick=600, thorough=40000),
]
