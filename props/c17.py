"""C17 Only in-space actions are executed, as the allocation they denote."""
import numpy as np
from hypothesis import strategies as st

from vlib.runner import Part, Result
from vlib import envlab as E
from vlib import episode_oracle as O

ID = "C17"
RULE = ("inspace: generated bar-shaped episodes whose action space is a BoxPortfolio (generated bounds, contract list with or without the cash "
        "contract at a generated position, weights or number-of-contracts mode) or a DiscretePortfolio (2-5 allocations, weights or contracts), "
        "in-space actions including actions exactly on the bounds, delay 0-3. Oracle: the recorded allocation equals the non-zero non-cash entries "
        "of the denoted vector (FIFO-matched to its decision), the post-trade position satisfies q*M*px = w*NLV_pre (or equals the number of "
        "contracts), the ledger reproduces NLV so the residual is cash. malformed: at a generated step a malformed action is submitted (wrong "
        "length, extra dimension, below low-eps, above high+eps, NaN, +-inf, string, None; discrete: n, n+k, -1, 1.5, NaN, string, None). Oracle: some "
        "call in steps j..j+d raises; the raising call adds no track-record entry and changes no position; the malformed action never appears as an "
        "executed allocation. Non-trivial (inspace) = an entry for the cash contract or number-of-contracts mode or a discrete space, with >= 2 "
        "non-zero executions; (malformed) = injection after at least one executed decision.")
RULE = RULE + (" Half of the malformed cases hand the actions to TradingEnv.backtest through a policy object instead of calling step(): the loop "
               "must stop with an error no later than the due step and no execution of the malformed action may be recorded. Malformed forms also "
               "include a mapping naming a contract outside the space and a bare scalar.")
ASSUMPTIONS = [
    "after a rejected action the episode is abandoned (the statement says nothing about continuing it)",
    "Python bool is an int and therefore a legal discrete action; not generated as malformed",
]


@st.composite
def inspace_cases(draw, tier="quick"):
    c = draw(E.episode_cases(tier, max_points=8, max_delay=3, leverage=1.5, with_pings=False, rewards=[["simple"]],
                             kinds=["etf", "uspot", "umargin", "es"]))
    n = len(c["contracts"])
    kind = draw(st.sampled_from(["box", "box", "box-contracts", "discrete", "discrete-contracts"]))
    cash_pos = draw(st.one_of(st.none(), st.integers(0, n)))
    c["cash_pos"] = cash_pos
    m = n + (1 if cash_pos is not None else 0)
    nsteps = len(c["actions"])

    def to_counts(wvec):
        return [round(w * c["deposit"] / (c["contracts"][i]["p0"] * (c["contracts"][i]["mult"] if c["contracts"][i]["kind"] in ("uspot", "umargin")
                                                                      else {"etf": 1.0, "es": 50.0}[c["contracts"][i]["kind"]])), 6)
                for i, w in enumerate(wvec)]

    def with_cash(vec):
        vec = list(vec)
        if cash_pos is not None:
            vec.insert(cash_pos % (n + 1), draw(st.sampled_from([0.0, 0.3, 1.0])))
        return vec

    if kind.startswith("box"):
        lo = draw(st.sampled_from([-1.0, -0.5, 0.0]))
        hi = draw(st.sampled_from([0.5, 1.0]))
        acts = []
        for k in range(nsteps):
            w = [draw(st.sampled_from([lo, hi, 0.0, lo / 2, hi / 2, hi / 4])) if draw(st.booleans()) else
                 draw(st.floats(lo, hi).map(lambda x: 0.0 if abs(x) < 0.02 else x)) for _ in range(n)]
            acts.append(w)
        if kind == "box-contracts":
            acts = [to_counts(w) for w in acts]
            acts = [[0.0 if abs(x) < 1e-3 else x for x in w] for w in acts]
            c["space"] = ["box", -1e9, 1e9, False]
            c["actions"] = [[(draw(st.sampled_from([0.0, 5.0])) if False else v) for v in with_cash(w)] for w in acts]
        else:
            c["space"] = ["box", min(lo, 0.0), max(hi, 1.0) if cash_pos is not None else hi, True]
            c["actions"] = [with_cash(w) for w in acts]
    else:
        k = draw(st.integers(2, 5))
        allocs = []
        for a in range(k):
            w = [round(draw(st.sampled_from([0.0, 0.25, -0.25, 0.5, 1.0, -0.5])) + 0.01 * a, 4) for _ in range(n)]
            if kind == "discrete-contracts":
                w = [0.0 if abs(x) < 1e-3 else x for x in to_counts(w)]
            allocs.append(with_cash(w))
        c["space"] = ["discrete", allocs, kind == "discrete"]
        c["actions"] = [draw(st.integers(0, k - 1)) for _ in range(nsteps)]
    c["space_kind"] = kind
    c["second_episode"] = draw(st.sampled_from([False, True]))      # a second episode on the same environment
    return c


def run_inspace(case):
    res = Result()
    stats = O.replay(case, res, {"fifo", "ledger", "pricing", "target"}, episodes=2 if case.get("second_episode") else 1)
    if stats["ruin"]:
        res.excluded = "ended-by-insolvency"
    special = case["cash_pos"] is not None or case["space_kind"] != "box"
    res.nontrivial = special and stats["nonzero_trade_execs"] >= 2
    res.tag(case["space_kind"], "delay=%d" % case["delay"])
    if case["cash_pos"] is not None:
        res.tag("cash-entry")
    if case.get("second_episode"):
        res.tag("two-episodes-on-one-environment")
    return res


BOX_FAULTS = ["len-", "len+", "dim", "low", "high", "nan", "inf", "-inf", "str", "none", "list-of-str", "zeros", "zeros-list",
              "dict-foreign", "dict-extra", "scalar"]
DISCRETE_FAULTS = ["n", "n+k", "-1", "1.5", "nan", "str", "none", "array"]


@st.composite
def malformed_cases(draw, tier="quick"):
    c = draw(inspace_cases(tier))
    nsteps = len(c["actions"])
    if c["space"][0] == "box" and c["space_kind"] == "box" and c["cash_pos"] is None and draw(st.sampled_from([False, True])):
        # a continuous space whose bounds exclude zero (minimum weight per contract): no delay (the null action is not in it)
        n = len(c["contracts"])
        lo, hi = 0.125, 0.75
        c["space"] = ["box", lo, hi, True]
        c["delay"] = 0
        c["actions"] = [[draw(st.sampled_from([lo, hi, 0.25, 0.5])) / 1.0 for _ in range(n)] for _ in c["actions"]]
        c["second_episode"] = False
        c["positive_low"] = True
    elif c["space"][0] == "box" and c["space_kind"] == "box" and c["cash_pos"] is None and len(c["contracts"]) >= 2 and draw(st.sampled_from([False, True])):
        # per-contract bounds (array-valued low / high, all containing zero so that delays keep working)
        n = len(c["contracts"])
        pool = [(-1.0, 0.5), (0.0, 1.0), (-0.5, 0.0), (-0.25, 0.25), (0.0, 0.5)]
        picks = draw(st.lists(st.sampled_from(pool), min_size=n, max_size=n).filter(lambda p: len(set(p)) > 1))
        lows, highs = [p[0] for p in picks], [p[1] for p in picks]
        c["space"] = ["box", lows, highs, True]
        c["actions"] = [[draw(st.sampled_from([lows[i], highs[i], 0.0, lows[i] / 2, highs[i] / 2])) for i in range(n)] for _ in c["actions"]]
        c["per_contract_bounds"] = True
    c["inject_at"] = draw(st.one_of(st.integers(0, max(0, nsteps - 1 - c["delay"])), st.integers(0, nsteps - 1)))
    c["fault"] = draw(st.sampled_from((BOX_FAULTS + ["cross", "cross"] if c.get("per_contract_bounds") else BOX_FAULTS) if c["space"][0] == "box" else DISCRETE_FAULTS))
    c["fault_idx"] = draw(st.integers(0, 5))
    return c


def malformed_action(case):
    f = case["fault"]
    sp = case["space"]
    n = len(case["contracts"]) + (1 if case["cash_pos"] is not None else 0)
    idx = case["fault_idx"] % n
    if sp[0] == "box":
        lo, hi = sp[1], sp[2]
        if isinstance(lo, list):
            # per-contract bounds: the fault is built for entry idx against ITS interval
            los, his = lo, hi
            base = np.array([(a + b) / 2 for a, b in zip(los, his)])
            lo, hi = los[idx], his[idx]
            if f == "cross":
                # inside the overall range [min(low), max(high)] but outside this contract's own interval
                if hi < max(his):
                    base[idx] = max(his)
                elif lo > min(los):
                    base[idx] = min(los)
                else:
                    base[idx] = hi + 1.0
                return base
        else:
            base = np.full(n, (lo + hi) / 2 if abs(lo) < 1e6 else 0.0)
        if f == "len-":
            return base[:-1] if n > 1 else np.array([])
        if f == "len+":
            return np.append(base, base[0])
        if f == "dim":
            return base.reshape(1, n)
        if f == "low":
            base[idx] = lo - max(1e-9, abs(lo) * 1e-9)
            return base
        if f == "high":
            base[idx] = hi + max(1e-9, abs(hi) * 1e-9)
            return base
        if f == "nan":
            base[idx] = np.nan
            return base
        if f == "inf":
            base[idx] = np.inf
            return base
        if f == "-inf":
            base[idx] = -np.inf
            return base
        if f in ("zeros", "zeros-list"):
            if lo <= 0 <= hi:
                base[idx] = hi + 1.0        # zero is in the space: fall back to an out-of-bounds entry
                return base
            return np.zeros(n) if f == "zeros" else [0.0] * n
        if f in ("dict-foreign", "dict-extra"):
            # a mapping is not a member of a Box; one naming a contract the space does not list least of all
            from tradingenv.contracts import ETF
            mid = float(base[idx])
            if f == "dict-foreign":
                return {ETF("ZZZ"): mid}
            m = {"K%d" % i: float(v) for i, v in enumerate(base)}
            m[ETF("ZZZ")] = mid
            return m
        if f == "scalar":
            return float(base[idx]) if n > 1 else np.array([[float(base[0])]])
        if f == "str":
            return "buy everything"
        if f == "list-of-str":
            return ["a"] * n
        return None
    k = len(sp[1])
    return {"n": k, "n+k": k + 1 + idx, "-1": -1, "1.5": 1.5, "nan": float("nan"), "str": "0", "none": None,
            "array": np.array([0, 1])}[f]


def run_malformed_backtest(case):
    """The same fault, with the actions supplied by a policy through TradingEnv.backtest (the library's own episode loop)."""
    from tradingenv.policy import AbstractPolicy
    res = Result()
    b = E.build(case)
    tm = E.Timing(b)
    env = b.env
    d = case["delay"]
    jm = case["inject_at"] + 1
    nsteps = len(tm.steps) - 1
    kind = case.get("action_type", "array64")

    class Replay(AbstractPolicy):
        def __init__(self):
            self.k = 0

        def act(self, state=None):
            self.k += 1
            if self.k == jm:
                return malformed_action(case)
            acts = case["actions"]
            return E.to_action(acts[min(self.k, len(acts)) - 1], kind)

    raised = None
    try:
        env.backtest(policy=Replay())
    except Exception as exc:  # noqa
        raised = exc
    rec = env.broker.track_record
    entries = [rec[i] for i in range(len(rec))]
    for k, entry in enumerate(entries, start=1):
        src = k - 1 - d
        if src + 1 == jm:
            res.fail("the malformed action (%s: %r) returned by the policy at decision %d was executed by backtest at step %d as %s" % (
                case["fault"], malformed_action(case), jm, k, dict(entry.allocation)))
            break
        if src + 1 > jm or src >= len(case["actions"]):
            break
        want = O.expected_allocation(b, case["actions"][src]) if src >= 0 else O.null_allocation(b)
        got = {O.index_of(b, c): float(v) for c, v in entry.allocation.items()}
        if got != want:
            res.fail("backtest: execution %d carries allocation %s, expected %s" % (k, got, want))
            break
    due_reached = nsteps >= jm + d and len(entries) >= jm + d - 1
    if raised is None and not res.violations:
        if len(entries) >= jm + d:
            res.fail("malformed action (%s: %r) returned by the policy at decision %d (delay %d) was never rejected by backtest (%d executions)" % (
                case["fault"], malformed_action(case), jm, d, len(entries)))
        else:
            res.excluded = "episode-ended-before-the-action-was-due"
    res.nontrivial = raised is not None and len(entries) >= 1
    res.tag("fault-" + case["fault"], case["space_kind"], "delay=%d" % d, "through-backtest")
    return res


def run_malformed(case):
    if case["fault_idx"] % 2 == 1 and not case.get("second_episode"):
        return run_malformed_backtest(case)
    res = Result()
    b = E.build(case)
    tm = E.Timing(b)
    env = b.env
    env.reset()
    d = case["delay"]
    jm = case["inject_at"] + 1          # step number at which the malformed action is submitted
    nsteps = min(len(case["actions"]), len(tm.steps) - 1)
    executed_before = 0
    raised_at = None

    def state():
        return ([float(env.broker.holdings_quantity.get(x, 0.0)).hex() for x in b.contracts], len(env.broker.track_record))

    for j in range(1, nsteps + 1):
        act = malformed_action(case) if j == jm else E.to_action(case["actions"][j - 1], case.get("action_type", "array64"))
        before = state()
        try:
            obs, reward, done, info = env.step(act)
        except Exception as exc:  # noqa
            if j < jm:
                raise
            raised_at = j
            if state() != before:
                res.fail("the step that rejected the malformed action (%s) changed positions or the track record: %s -> %s" % (
                    case["fault"], before, state()))
            break
        if info:
            entry = env.broker.track_record[-1]
            src = j - 1 - d
            if src + 1 == jm:
                res.fail("the malformed action (%s: %r) submitted at step %d was executed at step %d as %s" % (
                    case["fault"], malformed_action(case), jm, j, dict(entry.allocation)))
                break
            want = O.expected_allocation(b, case["actions"][src]) if src >= 0 else O.null_allocation(b)
            got = {O.index_of(b, c): float(v) for c, v in entry.allocation.items()}
            if got != want:
                res.fail("execution %d carries allocation %s, expected %s" % (j, got, want))
                break
            if j < jm:
                executed_before += 1
        if done:
            break
        if j >= jm + d:
            res.fail("malformed action (%s: %r) submitted at step %d with delay %d was never rejected (step %d completed)" % (
                case["fault"], malformed_action(case), jm, d, j))
            break
    if raised_at is None and not res.violations and case.get("second_episode"):
        # the malformed action was still pending when the episode ended: it must not leak into the next episode
        env.reset()
        for j in range(1, nsteps + 1):
            try:
                obs, reward, done, info = env.step(E.to_action(case["actions"][j - 1], case.get("action_type", "array64")))
            except Exception as exc:  # noqa
                res.fail("episode 2 submits only valid actions but step %d raised %s (a pending action of episode 1 leaked)" % (j, type(exc).__name__))
                break
            if info:
                src = j - 1 - d
                want = O.expected_allocation(b, case["actions"][src]) if src >= 0 else O.null_allocation(b)
                got = {O.index_of(b, c): float(v) for c, v in env.broker.track_record[-1].allocation.items()}
                if got != want:
                    res.fail("episode 2, execution %d carries allocation %s, expected %s" % (j, got, want))
                    break
            if done:
                break
        res.tag("second-episode-after-pending-malformed")
    if raised_at is not None and not (jm <= raised_at <= jm + d):
        res.fail("malformed action submitted at step %d (delay %d) rejected at step %d" % (jm, d, raised_at))
    if raised_at is None and not res.violations:
        res.excluded = "episode-ended-before-the-action-was-due"
    res.nontrivial = raised_at is not None and executed_before >= 1
    res.tag("fault-" + case["fault"], case["space_kind"], "delay=%d" % d)
    if raised_at is not None and raised_at > jm:
        res.tag("rejected-when-due")
    if case.get("per_contract_bounds"):
        res.tag("per-contract-bounds")
    if case.get("positive_low"):
        res.tag("bounds-exclude-zero")
    return res


PARTS = [
    Part("inspace", strategy=lambda tier: inspace_cases(tier), run=run_inspace, quick=2500, thorough=120000),
    Part("malformed", strategy=lambda tier: malformed_cases(tier), run=run_malformed, quick=2500, thorough=120000),
]
