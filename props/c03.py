"""C03 Rebalancing reaches the requested target allocation."""
import math

from hypothesis import strategies as st

from vlib.runner import Part, Result
from vlib import brokerlab as B
from tradingenv.broker.broker import EndOfEpisodeError
from tradingenv.broker.rebalancing import Rebalancing

ID = "C03"
RULE = ("An account is brought to arbitrary prior holdings by a short generated history (long, short, leveraged, mixed spot/margined, "
        "user-defined multipliers), quotes move, then ONE rebalance (threshold 0, fractional) to generated targets: weights in [-2,2] with "
        "zeros/absent entries, or numbers of contracts. Oracle: q_post*M*px == w*NLV_pre (px = ask for w>0, bid for w<0, NLV_pre = "
        "context_pre.nlv cross-checked against the independent ledger + accrued interest), absent/zero => q_post == 0.0 exactly, nr-contracts "
        "reached to rel 1e-12. Part frictionless (no spread, no fees, rate 0): reported weights == w, NLV unchanged, a second rebalance "
        "(make_trades and a real one) trades nothing above 1e-9*NLV. Non-trivial = non-empty prior holdings and (sign change, or a held "
        "contract absent from the target, or sum|w| > 1, or spot and margined mixed).")
ASSUMPTIONS = [
    "position law rel 1e-9 (+ abs 1e-12 contracts); context_pre.nlv vs ledger abs 1e-9*scale",
    "targets that would land inside the documented epsilon band (|q| < 1e-5) are replaced by 0",
    "rebalances whose own trading costs exhaust the account (EndOfEpisodeError from the post-trade valuation) are excluded and counted",
    "<= 4 contracts, <= 10 prior ops",
]


@st.composite
def cases(draw, tier="quick", frictionless=False, wide=False):
    h = draw(B.histories(tier, max_ops=10, wide=wide))
    n = len(h["contracts"])
    if frictionless:
        h["fees"] = [0.0, 0.0]
        h["rate"] = 0.0
        h["markup"] = 0.0
        for s in h["contracts"]:
            s["s0"] = 0.0
        ops = []
        for op in h["ops"]:
            if op[0] in ("Q", "QF"):
                op = [op[0], op[1], op[2], 0.0]
            if op[0] == "QR":
                op = ["QF", op[1], op[2], 0.0]
            ops.append(op)
        h["ops"] = ops
    measure = draw(st.sampled_from(["weight", "weight", "weight", "nr-contracts"]))
    if measure == "weight":
        w = st.one_of(st.none(), st.just(0.0), st.floats(-2.0, 2.0), st.floats(0.05, 1.0), st.sampled_from([-1.0, -0.5, 0.25, 0.5, 1.0, 1.5]))
    else:
        w = st.one_of(st.none(), st.just(0.0), st.floats(-40.0, 40.0), st.integers(-20, 20).map(float))
    targets = draw(st.lists(w, min_size=n, max_size=n))
    moves = draw(st.lists(st.tuples(st.floats(0.8, 1.25), st.just(0.0) if frictionless else B.spreads()), min_size=n, max_size=n))
    h["final"] = {"targets": targets, "measure": measure, "dt": draw(st.integers(1, 10 ** 7)),
                  "moves": [list(m) for m in moves], "cash_entry": draw(st.booleans()),
                  "order": draw(st.permutations(list(range(n)))),
                  # the last quotes may share one timestamp, with a valuation between them
                  "same_time": draw(st.sampled_from([False, False, True])), "peek": draw(st.sampled_from([False, True])),
                  # the trades of the very same Rebalancing object may be previewed (make_trades) before the quotes move
                  "preview": draw(st.sampled_from([False, False, True]))}
    h["frictionless"] = frictionless
    return h


def run_target(case):
    res = Result()
    lab, stats = B.run_history(case, None, res)
    if res.violations:
        return res
    led, br, n = lab.ledger, lab.broker, lab.n
    fin = case["final"]
    previewed = None
    if fin.get("preview") and led.nlv() > 1e-6 * led.scale():
        t_quotes = lab.now
        previewed = lab.rebalancing(list(fin["targets"]), fin["measure"], 10 ** 6, order=fin.get("order"))
        lab.now = t_quotes                       # its time lies ahead; the quotes below arrive before it
        try:
            previewed.make_trades(br)            # a preview of the trades at the quotes of this moment
        except Exception:  # noqa  (the preview may be refused: nothing to reuse then)
            previewed = None
    for i, (mv, sp) in enumerate(fin["moves"]):
        # (with a preview, every other same-time case stamps ALL the last quotes with the time of the last event seen by the preview)
        same_all = bool(fin.get("same_time")) and previewed is not None and fin["dt"] % 2 == 0
        lab.send_quote(i, min(max(lab.mid[i] * mv, 1e-3), 1e7), sp, same_time=bool(fin.get("same_time")) and (i > 0 or same_all))
        if fin.get("peek") and i == 0:
            br.net_liquidation_value(raise_if_broke=False)
    if fin.get("same_time"):
        res.tag("last-quotes-share-a-timestamp")
    nlv0 = led.nlv()
    if not nlv0 > 1e-6 * led.scale():
        res.excluded = "insolvent-before-rebalance"
        return res
    targets = list(fin["targets"])
    for j, w in enumerate(targets):
        if w is None or w == 0:
            continue
        if fin["measure"] == "weight":
            px = led.ask[j] if w > 0 else led.bid[j]
            qt = w * nlv0 / (px * lab.mult[j])
        else:
            qt = w
        if abs(qt) < B.QMIN:
            targets[j] = 0.0
    q_before = list(led.q)
    held = [i for i in range(n) if q_before[i] != 0]
    reb = lab.rebalancing(targets, fin["measure"], fin["dt"], order=fin.get("order"))
    if previewed is not None and targets == list(fin["targets"]):
        # nothing was sanitised away: execute the very object that was previewed, at the quotes of now
        reb = previewed
        lab.reb_time = lab.now = previewed.time
        res.tag("previewed-before-quotes-moved")
    if fin["cash_entry"] and reb is not previewed and fin["measure"] == "weight":
        # an explicit entry for the cash contract is legal and must be ignored
        cs = [lab.contracts[i] for i, w in enumerate(targets) if w is not None] + [lab.cash]
        ws = [w for w in targets if w is not None] + [0.3]
        reb = Rebalancing(contracts=cs, allocation=ws, measure="weight", margin=0.0, fractional=True, time=reb.time)
        res.tag("cash-entry")
    try:
        br.rebalance(reb)
    except EndOfEpisodeError:
        if reb.context_pre is not Ellipsis:
            res.excluded = "ruined-by-own-trading-costs"
            return res
        interest = float(reb.profit_on_idle_cash) if reb.profit_on_idle_cash is not Ellipsis else 0.0
        if nlv0 + interest > 1e-9 * led.scale():
            res.fail("rebalance refused (EndOfEpisodeError) with ledger NLV %.12g > 0" % (nlv0 + interest))
        else:
            res.excluded = "insolvent-after-interest"
        return res
    interest = float(reb.profit_on_idle_cash)
    led.interest += interest
    nlv_pre = reb.context_pre.nlv
    if not abs(nlv_pre - (nlv0 + interest)) <= 1e-9 * led.scale():
        res.fail("context_pre.nlv %.12g differs from ledger NLV before trading %.12g" % (nlv_pre, nlv0 + interest))
        return res
    lab.apply_recorded_trades(reb)
    signs_changed = False
    absent_held = False
    for i in range(n):
        w = targets[i]
        qp = lab.code_q(i)
        if w is None or w == 0:
            if q_before[i] != 0:
                absent_held = True
            if qp != 0.0:
                res.fail("contract %d is %s the target but keeps position %r (held %r before)" % (
                    i, "absent from" if w is None else "zero in", qp, q_before[i]))
        elif fin["measure"] == "weight":
            px = led.ask[i] if w > 0 else led.bid[i]
            lhs = qp * lab.mult[i] * px
            rhs = w * nlv_pre
            # q_post = q_before + (q_target - q_before): cancellation error is relative to the larger of the two
            cancel = 8 * 2.3e-16 * max(abs(q_before[i]), abs(qp)) * lab.mult[i] * px
            if not B.close(lhs, rhs, rel=1e-9, abs_=max(cancel, 1e-12 * lab.mult[i] * px)):
                res.fail("contract %d: position x multiplier x %s = %.12g but w x NLV_pre = %.12g (w=%r, q_post=%r)" % (
                    i, "ask" if w > 0 else "bid", lhs, rhs, w, qp))
            if q_before[i] * w < 0:
                signs_changed = True
        else:
            if not B.close(qp, w, rel=1e-12, abs_=max(1e-12, 8 * 2.3e-16 * max(abs(q_before[i]), abs(w)))):
                res.fail("contract %d: target %r contracts, position after rebalance %r" % (i, w, qp))
            if q_before[i] * w < 0:
                signs_changed = True
    gross = sum(abs(w) for w in targets if w) if fin["measure"] == "weight" else 0.0
    mixed = len({lab.margined[i] for i in range(n) if (targets[i] or q_before[i])}) == 2
    res.nontrivial = bool(held) and (signs_changed or absent_held or gross > 1 or mixed)
    res.tag(fin["measure"])
    if signs_changed:
        res.tag("sign-change")
    if absent_held:
        res.tag("held-absent-from-target")
    if gross > 1:
        res.tag("leveraged-target")
    if mixed:
        res.tag("mixed-kinds")
    if any(lab.mult[i] != 1 and not lab.margined[i] for i in range(n) if targets[i]):
        res.tag("fully-paid-multiplier!=1")

    if case.get("frictionless") and not res.violations:
        res.tag("frictionless")
        nlv_post = br.net_liquidation_value(raise_if_broke=False)
        if not abs(nlv_post - nlv_pre) <= 1e-9 * led.scale():
            res.fail("frictionless rebalance changed NLV from %.12g to %.12g" % (nlv_pre, nlv_post))
        if fin["measure"] == "weight" and nlv_post > 0:
            weights = br.holdings_weights()
            for i in range(n):
                w = targets[i] or 0.0
                got = weights.get(lab.contracts[i], 0.0)
                if not B.close(got, w, rel=1e-9, abs_=1e-9):
                    res.fail("frictionless: reported weight of contract %d is %.12g, target %r" % (i, got, w))
        # an immediate second rebalance to the same target trades nothing of economic size
        if nlv_post > 0:
            again = lab.rebalancing(targets, fin["measure"], 1)
            trades = again.make_trades(br)
            for tr in trades:
                size = abs(tr.quantity * tr.contract.multiplier * tr.acq_price)
                if size > 1e-9 * max(nlv_post, led.scale()):
                    res.fail("second make_trades to the same target wants to trade %r of %s (notional %.3g)" % (tr.quantity, tr.contract, size))
            br.rebalance(again)
            for tr in again.trades:
                size = abs(tr.quantity * tr.contract.multiplier * tr.acq_price)
                if size > 1e-9 * max(nlv_post, led.scale()):
                    res.fail("second rebalance to the same target traded %r of %s (notional %.3g)" % (tr.quantity, tr.contract, size))
    return res


PARTS = [
    Part("target", strategy=lambda tier: cases(tier, frictionless=False), run=run_target, quick=4000, thorough=300000),
    Part("wide", strategy=lambda tier: st.one_of(cases(tier, frictionless=False, wide=True), cases(tier, frictionless=True, wide=True)),
         run=run_target, quick=800, thorough=60000),      # one rebalance over 5-12 contracts
    Part("frictionless", strategy=lambda tier: cases(tier, frictionless=True), run=run_target, quick=2000, thorough=150000),
]
